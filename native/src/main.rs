//! Native oracle: executes the REAL crate on concrete inputs.
//! Used (a) to validate the MIR->SMT translator differentially and (b) to replay solver
//! counterexamples natively before anything is reported.
//!
//! Protocol: one request per stdin line: `<op> <type> <hex f64 bits>...`; one reply per line:
//! hex bits of every number of the result, or `PANIC`, or `ERR <why>`.
use approx::{AbsDiffEq, RelativeEq};
use piecewise_polynomial::*;
use std::io::{self, BufRead, Write};

trait Flat: Sized {
    const N: usize;
    fn from_flat(v: &[f64]) -> Self;
    fn to_flat(&self) -> Vec<f64>;
}

macro_rules! flat_poly {
    ($t:ident, $n:expr) => {
        impl Flat for $t {
            const N: usize = $n;
            fn from_flat(v: &[f64]) -> Self {
                let mut a = [0.0; $n];
                a.copy_from_slice(&v[..$n]);
                $t(a)
            }
            fn to_flat(&self) -> Vec<f64> {
                self.0.to_vec()
            }
        }
    };
}
impl Flat for Poly0 {
    const N: usize = 1;
    fn from_flat(v: &[f64]) -> Self {
        Poly0(v[0])
    }
    fn to_flat(&self) -> Vec<f64> {
        vec![self.0]
    }
}
flat_poly!(Poly1, 2);
flat_poly!(Poly2, 3);
flat_poly!(Poly3, 4);
flat_poly!(Poly4, 5);
flat_poly!(Poly5, 6);
flat_poly!(Poly6, 7);
flat_poly!(Poly7, 8);
flat_poly!(Poly8, 9);

impl<T: Flat> Flat for Log<T> {
    const N: usize = T::N;
    fn from_flat(v: &[f64]) -> Self {
        Log(T::from_flat(v))
    }
    fn to_flat(&self) -> Vec<f64> {
        self.0.to_flat()
    }
}
impl<T: Flat> Flat for IntOfLog<T> {
    const N: usize = T::N + 1;
    fn from_flat(v: &[f64]) -> Self {
        IntOfLog { k: v[0], poly: T::from_flat(&v[1..]) }
    }
    fn to_flat(&self) -> Vec<f64> {
        let mut o = vec![self.k];
        o.extend(self.poly.to_flat());
        o
    }
}
impl Flat for IntOfLogPoly4 {
    const N: usize = 6;
    fn from_flat(v: &[f64]) -> Self {
        IntOfLogPoly4 { k: v[0], coeffs: [v[1], v[2], v[3], v[4]], u: v[5] }
    }
    fn to_flat(&self) -> Vec<f64> {
        vec![self.k, self.coeffs[0], self.coeffs[1], self.coeffs[2], self.coeffs[3], self.u]
    }
}
impl<T: Flat> Flat for Segment<T> {
    const N: usize = T::N + 1;
    fn from_flat(v: &[f64]) -> Self {
        Segment { end: v[0], poly: T::from_flat(&v[1..]) }
    }
    fn to_flat(&self) -> Vec<f64> {
        let mut o = vec![self.end];
        o.extend(self.poly.to_flat());
        o
    }
}

fn out(v: &[f64]) -> String {
    v.iter().map(|x| format!("{:016x}", x.to_bits())).collect::<Vec<_>>().join(" ")
}

fn eval_t<T: Flat + Evaluate>(a: &[f64]) -> String {
    let t = T::from_flat(a);
    out(&[t.evaluate(a[T::N])])
}
fn deriv_t<T: Flat + HasDerivative>(a: &[f64]) -> String
where
    T::DerivativeOf: Flat,
{
    out(&T::from_flat(a).derivative().to_flat())
}
fn indef_t<T: Flat + HasIntegral>(a: &[f64]) -> String
where
    T::IntegralOf: Flat + Evaluate,
{
    out(&T::from_flat(a).indefinite().to_flat())
}
fn integ_t<T: Flat + HasIntegral>(a: &[f64]) -> String
where
    T::IntegralOf: Flat + Evaluate,
{
    out(&T::from_flat(a).integral(Knot { x: a[T::N], y: a[T::N + 1] }).to_flat())
}
fn mul_t<T: Flat + std::ops::Mul<f64>>(a: &[f64]) -> String
where
    T::Output: Flat,
{
    out(&(T::from_flat(a) * a[T::N]).to_flat())
}
fn mulassign_t<T: Flat + std::ops::MulAssign<f64>>(a: &[f64]) -> String {
    let mut t = T::from_flat(a);
    t *= a[T::N];
    out(&t.to_flat())
}
fn neg_t<T: Flat + std::ops::Neg>(a: &[f64]) -> String
where
    T::Output: Flat,
{
    out(&(-T::from_flat(a)).to_flat())
}
fn add_t<T: Flat + std::ops::Add>(a: &[f64]) -> String
where
    T::Output: Flat,
{
    out(&(T::from_flat(a) + T::from_flat(&a[T::N..])).to_flat())
}
fn translate_t<T: Flat + Translate>(a: &[f64]) -> String {
    let mut t = T::from_flat(a);
    t.translate(a[T::N]);
    out(&t.to_flat())
}
fn absdiff_t<T: Flat + AbsDiffEq<Epsilon = f64>>(a: &[f64]) -> String {
    let x = T::from_flat(a);
    let y = T::from_flat(&a[T::N..]);
    format!("{}", x.abs_diff_eq(&y, a[2 * T::N]) as u8)
}
fn releq_t<T: Flat + RelativeEq<Epsilon = f64>>(a: &[f64]) -> String {
    let x = T::from_flat(a);
    let y = T::from_flat(&a[T::N..]);
    format!("{}", x.relative_eq(&y, a[2 * T::N], a[2 * T::N + 1]) as u8)
}

macro_rules! dispatch_all {
    ($f:ident, $ty:expr, $a:expr, [$($name:literal => $t:ty),* $(,)?]) => {
        match $ty {
            $($name => Some($f::<$t>($a)),)*
            _ => None,
        }
    };
}

/// borsh round trip of one value (feature `borsh`): reply = numbers of the value read back, or SERERR / DEERR / LEFTOVER
#[cfg(feature = "borsh")]
fn borshrt_t<T: Flat + borsh::BorshSerialize + borsh::BorshDeserialize>(a: &[f64]) -> String {
    let v = T::from_flat(a);
    let mut buf: Vec<u8> = Vec::new();
    if borsh::BorshSerialize::serialize(&v, &mut buf).is_err() {
        return "ERR SERERR".to_string();
    }
    let mut rd: &[u8] = &buf[..];
    match <T as borsh::BorshDeserialize>::deserialize_reader(&mut rd) {
        Err(_) => "ERR DEERR".to_string(),
        Ok(w) => {
            if !rd.is_empty() {
                return "ERR LEFTOVER".to_string();
            }
            out(&w.to_flat())
        }
    }
}
#[cfg(feature = "borsh")]
fn borshrt_pw<T: Flat + borsh::BorshSerialize + borsh::BorshDeserialize>(n: usize, a: &[f64]) -> String {
    let w = T::N + 1;
    let v = Piecewise { segments: (0..n).map(|i| Segment::<T>::from_flat(&a[i * w..(i + 1) * w])).collect::<Vec<_>>() };
    let mut buf: Vec<u8> = Vec::new();
    if borsh::BorshSerialize::serialize(&v, &mut buf).is_err() {
        return "ERR SERERR".to_string();
    }
    let mut rd: &[u8] = &buf[..];
    match <Piecewise<T> as borsh::BorshDeserialize>::deserialize_reader(&mut rd) {
        Err(_) => "ERR DEERR".to_string(),
        Ok(w2) => {
            if !rd.is_empty() {
                return "ERR LEFTOVER".to_string();
            }
            let mut o = vec![w2.segments.len() as f64];
            for s in &w2.segments {
                o.extend(s.to_flat());
            }
            out(&o)
        }
    }
}
#[cfg(feature = "borsh")]
impl Flat for Knot {
    const N: usize = 2;
    fn from_flat(v: &[f64]) -> Self {
        Knot { x: v[0], y: v[1] }
    }
    fn to_flat(&self) -> Vec<f64> {
        vec![self.x, self.y]
    }
}
#[cfg(feature = "borsh")]
fn borshrt(ty: &str, a: &[f64]) -> Option<String> {
    macro_rules! all_types {
        ($m:ident, $ty:expr, $($pre:tt)*) => {
            $m!($ty, $($pre)* [
                "P0" => Poly0, "P1" => Poly1, "P2" => Poly2, "P3" => Poly3, "P4" => Poly4, "P5" => Poly5,
                "P6" => Poly6, "P7" => Poly7, "P8" => Poly8,
                "LP0" => Log<Poly0>, "LP1" => Log<Poly1>, "LP2" => Log<Poly2>, "LP3" => Log<Poly3>,
                "LP4" => Log<Poly4>, "LP5" => Log<Poly5>, "LP6" => Log<Poly6>, "LP7" => Log<Poly7>, "LP8" => Log<Poly8>,
                "IL0" => IntOfLog<Poly0>, "IL1" => IntOfLog<Poly1>, "IL2" => IntOfLog<Poly2>, "IL3" => IntOfLog<Poly3>,
                "IL4" => IntOfLog<Poly4>, "IL5" => IntOfLog<Poly5>, "IL6" => IntOfLog<Poly6>, "IL7" => IntOfLog<Poly7>,
                "IL8" => IntOfLog<Poly8>, "ILP4" => IntOfLogPoly4
            ])
        };
    }
    macro_rules! plain {
        ($ty:expr, [$($name:literal => $t:ty),*]) => {
            match $ty { $($name => Some(borshrt_t::<$t>(a)),)* _ => None }
        };
    }
    macro_rules! seg {
        ($ty:expr, [$($name:literal => $t:ty),*]) => {
            match $ty { $($name => Some(borshrt_t::<Segment<$t>>(a)),)* _ => None }
        };
    }
    macro_rules! pw {
        ($ty:expr, $n:ident, [$($name:literal => $t:ty),*]) => {
            match $ty { $($name => Some(borshrt_pw::<$t>($n, a)),)* _ => None }
        };
    }
    if ty == "K" {
        return Some(borshrt_t::<Knot>(a));
    }
    if let Some(rest) = ty.strip_prefix('W') {
        let (n, inner) = rest.split_once(':')?;
        let n: usize = n.parse().ok()?;
        return all_types!(pw, inner, n,);
    }
    if let Some(inner) = ty.strip_prefix('S') {
        return all_types!(seg, inner,);
    }
    all_types!(plain, ty,)
}

fn knots_of(a: &[f64]) -> Vec<Knot> {
    a.chunks(2).map(|c| Knot { x: c[0], y: c[1] }).collect()
}

fn handle(op: &str, ty: &str, a: &[f64]) -> Option<String> {
    #[cfg(feature = "borsh")]
    if op == "borshrt" {
        return borshrt(ty, a);
    }
    match op {
        "eval" => {
            if let Some(k) = ty.strip_prefix("PN") {
                let n: usize = k.parse().ok()?;
                let p = PolyN(a[..n].to_vec());
                return Some(out(&[p.evaluate(a[n])]));
            }
            dispatch_all!(eval_t, ty, a, [
                "P0" => Poly0, "P1" => Poly1, "P2" => Poly2, "P3" => Poly3, "P4" => Poly4, "P5" => Poly5,
                "P6" => Poly6, "P7" => Poly7, "P8" => Poly8,
                "LP0" => Log<Poly0>, "LP1" => Log<Poly1>, "LP2" => Log<Poly2>, "LP3" => Log<Poly3>,
                "LP4" => Log<Poly4>, "LP5" => Log<Poly5>, "LP6" => Log<Poly6>, "LP7" => Log<Poly7>,
                "LP8" => Log<Poly8>,
                "IL0" => IntOfLog<Poly0>, "IL1" => IntOfLog<Poly1>, "IL2" => IntOfLog<Poly2>,
                "IL3" => IntOfLog<Poly3>, "IL5" => IntOfLog<Poly5>, "IL6" => IntOfLog<Poly6>,
                "IL7" => IntOfLog<Poly7>, "IL8" => IntOfLog<Poly8>, "ILP4" => IntOfLogPoly4,
            ])
        }
        "deriv" => dispatch_all!(deriv_t, ty, a, [
            "P0" => Poly0, "P1" => Poly1, "P2" => Poly2, "P3" => Poly3, "P4" => Poly4, "P5" => Poly5,
            "P6" => Poly6, "P7" => Poly7, "P8" => Poly8,
            "SP0" => Segment<Poly0>, "SP1" => Segment<Poly1>, "SP2" => Segment<Poly2>, "SP3" => Segment<Poly3>,
            "SP4" => Segment<Poly4>, "SP5" => Segment<Poly5>, "SP6" => Segment<Poly6>, "SP7" => Segment<Poly7>, "SP8" => Segment<Poly8>,
        ]),
        "indef" => dispatch_all!(indef_t, ty, a, [
            "P0" => Poly0, "P1" => Poly1, "P2" => Poly2, "P3" => Poly3, "P4" => Poly4, "P5" => Poly5,
            "P6" => Poly6, "P7" => Poly7,
            "LP0" => Log<Poly0>, "LP1" => Log<Poly1>, "LP2" => Log<Poly2>, "LP3" => Log<Poly3>,
            "LP4" => Log<Poly4>, "LP5" => Log<Poly5>, "LP6" => Log<Poly6>, "LP7" => Log<Poly7>,
            "LP8" => Log<Poly8>,
            "SP0" => Segment<Poly0>, "SP1" => Segment<Poly1>, "SP2" => Segment<Poly2>, "SP3" => Segment<Poly3>,
            "SP4" => Segment<Poly4>, "SP5" => Segment<Poly5>, "SP6" => Segment<Poly6>, "SP7" => Segment<Poly7>,
            "SLP1" => Segment<Log<Poly1>>, "SLP2" => Segment<Log<Poly2>>, "SLP4" => Segment<Log<Poly4>>,
        ]),
        "integ" => dispatch_all!(integ_t, ty, a, [
            "P0" => Poly0, "P1" => Poly1, "P2" => Poly2, "P3" => Poly3, "P4" => Poly4, "P5" => Poly5,
            "P6" => Poly6, "P7" => Poly7,
            "LP0" => Log<Poly0>, "LP1" => Log<Poly1>, "LP2" => Log<Poly2>, "LP3" => Log<Poly3>,
            "LP4" => Log<Poly4>, "LP5" => Log<Poly5>, "LP6" => Log<Poly6>, "LP7" => Log<Poly7>,
            "LP8" => Log<Poly8>,
            "SP0" => Segment<Poly0>, "SP1" => Segment<Poly1>, "SP2" => Segment<Poly2>, "SP3" => Segment<Poly3>,
            "SP4" => Segment<Poly4>, "SP5" => Segment<Poly5>, "SP6" => Segment<Poly6>, "SP7" => Segment<Poly7>,
            "SLP1" => Segment<Log<Poly1>>, "SLP2" => Segment<Log<Poly2>>, "SLP4" => Segment<Log<Poly4>>,
        ]),
        "mul" => dispatch_all!(mul_t, ty, a, [
            "P0" => Poly0, "P1" => Poly1, "P2" => Poly2, "P3" => Poly3, "P4" => Poly4, "P5" => Poly5,
            "P6" => Poly6, "P7" => Poly7, "P8" => Poly8,
            "LP1" => Log<Poly1>, "LP4" => Log<Poly4>, "LP8" => Log<Poly8>,
            "IL1" => IntOfLog<Poly1>, "IL3" => IntOfLog<Poly3>, "IL8" => IntOfLog<Poly8>,
            "ILP4" => IntOfLogPoly4, "SP3" => Segment<Poly3>,
        ]),
        "mulassign" => dispatch_all!(mulassign_t, ty, a, [
            "P0" => Poly0, "P1" => Poly1, "P2" => Poly2, "P3" => Poly3, "P4" => Poly4, "P5" => Poly5,
            "P6" => Poly6, "P7" => Poly7, "P8" => Poly8,
            "LP1" => Log<Poly1>, "LP4" => Log<Poly4>, "LP8" => Log<Poly8>,
            "IL1" => IntOfLog<Poly1>, "IL3" => IntOfLog<Poly3>, "IL8" => IntOfLog<Poly8>,
            "SP3" => Segment<Poly3>,
        ]),
        "neg" => dispatch_all!(neg_t, ty, a, [
            "P0" => Poly0, "P1" => Poly1, "P2" => Poly2, "P3" => Poly3, "P4" => Poly4, "P5" => Poly5,
            "P6" => Poly6, "P7" => Poly7, "P8" => Poly8,
            "IL1" => IntOfLog<Poly1>, "IL3" => IntOfLog<Poly3>, "IL8" => IntOfLog<Poly8>,
            "ILP4" => IntOfLogPoly4,
        ]),
        "add" => dispatch_all!(add_t, ty, a, [
            "P0" => Poly0, "P1" => Poly1, "P2" => Poly2, "P3" => Poly3, "P4" => Poly4, "P5" => Poly5,
            "P6" => Poly6, "P7" => Poly7, "P8" => Poly8,
            "IL1" => IntOfLog<Poly1>, "IL3" => IntOfLog<Poly3>, "IL8" => IntOfLog<Poly8>,
            "ILP4" => IntOfLogPoly4,
        ]),
        "sub" => {
            if ty == "ILP4" {
                let x = IntOfLogPoly4::from_flat(a);
                let y = IntOfLogPoly4::from_flat(&a[6..]);
                Some(out(&(x - y).to_flat()))
            } else {
                None
            }
        }
        "addref" | "subref" => {
            if ty == "ILP4" {
                let x = IntOfLogPoly4::from_flat(a);
                let y = IntOfLogPoly4::from_flat(&a[6..]);
                let r = if op == "addref" { &x + &y } else { &x - &y };
                Some(out(&r.to_flat()))
            } else {
                None
            }
        }
        "translate" => {
            if let Some(k) = ty.strip_prefix("PN") {
                let n: usize = k.parse().ok()?;
                let mut p = PolyN(a[..n].to_vec());
                p.translate(a[n]);
                return Some(out(&p.0));
            }
            dispatch_all!(translate_t, ty, a, [
                "P0" => Poly0, "P1" => Poly1, "P2" => Poly2, "P3" => Poly3, "P4" => Poly4, "P5" => Poly5,
                "P6" => Poly6, "P7" => Poly7, "P8" => Poly8,
                "LP1" => Log<Poly1>, "LP4" => Log<Poly4>, "LP8" => Log<Poly8>,
                "IL1" => IntOfLog<Poly1>, "IL3" => IntOfLog<Poly3>, "IL8" => IntOfLog<Poly8>,
                "ILP4" => IntOfLogPoly4, "SP3" => Segment<Poly3>,
            ])
        }
        "absdiff" => {
            if let Some(k) = ty.strip_prefix("PN") {
                // PN<n>x<m>: lengths n and m
                let mut it = k.split('x');
                let n: usize = it.next()?.parse().ok()?;
                let m: usize = it.next()?.parse().ok()?;
                let x = PolyN(a[..n].to_vec());
                let y = PolyN(a[n..n + m].to_vec());
                return Some(format!("{}", x.abs_diff_eq(&y, a[n + m]) as u8));
            }
            dispatch_all!(absdiff_t, ty, a, [
                "P0" => Poly0, "P1" => Poly1, "P2" => Poly2, "P3" => Poly3, "P4" => Poly4, "P5" => Poly5,
                "P6" => Poly6, "P7" => Poly7, "P8" => Poly8,
                "LP0" => Log<Poly0>, "LP2" => Log<Poly2>, "LP8" => Log<Poly8>,
                "IL0" => IntOfLog<Poly0>, "IL2" => IntOfLog<Poly2>, "IL8" => IntOfLog<Poly8>, "ILP4" => IntOfLogPoly4,
                "SP0" => Segment<Poly0>, "SP1" => Segment<Poly1>, "SILP4" => Segment<IntOfLogPoly4>, "SLP2" => Segment<Log<Poly2>>,
                "SIL2" => Segment<IntOfLog<Poly2>>,
            ])
        }
        "releq" => {
            if let Some(k) = ty.strip_prefix("PN") {
                let mut it = k.split('x');
                let n: usize = it.next()?.parse().ok()?;
                let m: usize = it.next()?.parse().ok()?;
                let x = PolyN(a[..n].to_vec());
                let y = PolyN(a[n..n + m].to_vec());
                return Some(format!("{}", x.relative_eq(&y, a[n + m], a[n + m + 1]) as u8));
            }
            dispatch_all!(releq_t, ty, a, [
                "P0" => Poly0, "P1" => Poly1, "P2" => Poly2, "P3" => Poly3, "P4" => Poly4, "P5" => Poly5,
                "P6" => Poly6, "P7" => Poly7, "P8" => Poly8,
                "LP0" => Log<Poly0>, "LP2" => Log<Poly2>, "LP8" => Log<Poly8>,
                "IL0" => IntOfLog<Poly0>, "IL2" => IntOfLog<Poly2>, "IL8" => IntOfLog<Poly8>, "ILP4" => IntOfLogPoly4,
                "SP0" => Segment<Poly0>, "SP1" => Segment<Poly1>, "SILP4" => Segment<IntOfLogPoly4>, "SLP2" => Segment<Log<Poly2>>,
                "SIL2" => Segment<IntOfLog<Poly2>>,
            ])
        }
        "pwabsdiff1" | "pwreleq1" => {
            // Piecewise<Poly1>: type "n x m": segments (end, c0, c1) triples
            let mut it = ty.split('x');
            let n: usize = it.next()?.parse().ok()?;
            let m: usize = it.next()?.parse().ok()?;
            let mk = |v: &[f64]| Piecewise {
                segments: v.chunks(3).map(|c| Segment { end: c[0], poly: Poly1([c[1], c[2]]) }).collect(),
            };
            let x = mk(&a[..3 * n]);
            let y = mk(&a[3 * n..3 * (n + m)]);
            let r = if op == "pwabsdiff1" {
                x.abs_diff_eq(&y, a[3 * (n + m)])
            } else {
                x.relative_eq(&y, a[3 * (n + m)], a[3 * (n + m) + 1])
            };
            Some(format!("{}", r as u8))
        }
        "pwabsdiff" | "pwreleq" => {
            // Piecewise<Poly0>: type "n x m": segments (end, v) pairs
            let mut it = ty.split('x');
            let n: usize = it.next()?.parse().ok()?;
            let m: usize = it.next()?.parse().ok()?;
            let mk = |v: &[f64]| Piecewise {
                segments: v.chunks(2).map(|c| Segment { end: c[0], poly: Poly0(c[1]) }).collect(),
            };
            let x = mk(&a[..2 * n]);
            let y = mk(&a[2 * n..2 * (n + m)]);
            let r = if op == "pwabsdiff" {
                x.abs_diff_eq(&y, a[2 * (n + m)])
            } else {
                x.relative_eq(&y, a[2 * (n + m)], a[2 * (n + m) + 1])
            };
            Some(format!("{}", r as u8))
        }
        "pweval" | "pwevaluator" | "pwevalv" => {
            // Piecewise<Poly0>: type "n" or "nxq": (end, value) pairs, then the arguments
            let mut it = ty.split('x');
            let n: usize = it.next()?.parse().ok()?;
            let q: usize = it.next().map(|s| s.parse().unwrap_or(1)).unwrap_or(1);
            let pw = Piecewise {
                segments: a[..2 * n].chunks(2).map(|c| Segment { end: c[0], poly: Poly0(c[1]) }).collect::<Vec<_>>(),
            };
            let xs = &a[2 * n..2 * n + q];
            let res: Vec<f64> = match op {
                "pweval" => xs.iter().map(|&x| pw.evaluate(x)).collect(),
                "pwevaluator" => {
                    let mut ev = PiecewiseEvaluator::new(&pw.segments);
                    xs.iter().map(|&x| ev.evaluate(x)).collect()
                }
                _ => pw.evaluate_v(xs.iter().cloned()).collect(),
            };
            Some(out(&res))
        }
        "pwadd" | "pwsub" => {
            // Piecewise<IntOfLogPoly4> with only k set: type "nxm": f (end,k) pairs then g (end,k) pairs
            let mut it = ty.split('x');
            let n: usize = it.next()?.parse().ok()?;
            let m: usize = it.next()?.parse().ok()?;
            let mk = |v: &[f64]| Piecewise {
                segments: v.chunks(2).map(|c| Segment { end: c[0], poly: IntOfLogPoly4 { k: c[1], coeffs: [0.0; 4], u: 0.0 } }).collect::<Vec<_>>(),
            };
            let f = mk(&a[..2 * n]);
            let g = mk(&a[2 * n..2 * (n + m)]);
            let r = if op == "pwadd" { &f + &g } else { &f - &g };
            let mut o = Vec::new();
            for s in &r.segments {
                o.push(s.end);
                o.push(s.poly.k);
            }
            Some(out(&o))
        }
        "pwinteg" | "pwindef" => {
            // type "<tag>x<n>": n segments of piece type <tag>, each (end, numbers of the piece); pwinteg: then knot x, y
            let mut it = ty.split('x');
            let tag = it.next()?;
            let n: usize = it.next()?.parse().ok()?;
            macro_rules! go {
                ($t:ty) => {{
                    let w = <$t as Flat>::N + 1;
                    let pw = Piecewise {
                        segments: (0..n).map(|i| Segment::<$t>::from_flat(&a[i * w..(i + 1) * w])).collect::<Vec<_>>(),
                    };
                    let r = if op == "pwinteg" {
                        pw.integral(Knot { x: a[n * w], y: a[n * w + 1] })
                    } else {
                        pw.indefinite()
                    };
                    let mut o = Vec::new();
                    for s in &r.segments {
                        o.extend(s.to_flat());
                    }
                    Some(out(&o))
                }};
            }
            match tag {
                "P0" => go!(Poly0), "P1" => go!(Poly1), "P2" => go!(Poly2), "P3" => go!(Poly3), "P5" => go!(Poly5), "P7" => go!(Poly7),
                "LP0" => go!(Log<Poly0>), "LP1" => go!(Log<Poly1>), "LP2" => go!(Log<Poly2>), "LP3" => go!(Log<Poly3>),
                "LP4" => go!(Log<Poly4>), "LP5" => go!(Log<Poly5>), "LP8" => go!(Log<Poly8>),
                _ => None,
            }
        }
        "pwderiv" | "pwmul" | "pwmulassign" | "pwneg" | "pwtranslate" | "pwintiter" | "pwintiterref" => {
            // Piecewise<Poly1>, type "n": n x (end, c0, c1), then the scalar (mul, mulassign, translate) or the knot x, y (iterators)
            let n: usize = ty.parse().ok()?;
            let segs: Vec<Segment<Poly1>> = (0..n).map(|i| Segment::<Poly1>::from_flat(&a[3 * i..3 * i + 3])).collect();
            let rest = &a[3 * n..];
            let mut o = Vec::new();
            match op {
                "pwderiv" => {
                    for s in &(Piecewise { segments: segs }).derivative().segments {
                        o.extend(s.to_flat());
                    }
                }
                "pwintiter" => {
                    for s in Segment::integral_iter(segs, Knot { x: rest[0], y: rest[1] }) {
                        o.extend(s.to_flat());
                    }
                }
                "pwintiterref" => {
                    for s in Segment::integral_iter_ref(&segs, Knot { x: rest[0], y: rest[1] }) {
                        o.extend(s.to_flat());
                    }
                }
                _ => {
                    let mut pw = Piecewise { segments: segs };
                    let pw = match op {
                        "pwmul" => pw * rest[0],
                        "pwmulassign" => {
                            pw *= rest[0];
                            pw
                        }
                        "pwneg" => -pw,
                        _ => {
                            pw.translate(rest[0]);
                            pw
                        }
                    };
                    for s in &pw.segments {
                        o.extend(s.to_flat());
                    }
                }
            }
            Some(out(&o))
        }
        "arb" => {
            // Arbitrary for Piecewise<Poly0>: type "K": K ends then K piece values -> byte string [1][end]..[0][pieces..]
            let k: usize = ty.parse().ok()?;
            let mut bytes: Vec<u8> = Vec::new();
            for i in 0..k {
                bytes.push(1);
                bytes.extend_from_slice(&a[i].to_bits().to_le_bytes());
            }
            bytes.push(0);
            for i in 0..k {
                bytes.extend_from_slice(&a[k + i].to_bits().to_le_bytes());
            }
            let mut u = arbitrary::Unstructured::new(&bytes);
            match <Piecewise<Poly0> as arbitrary::Arbitrary>::arbitrary(&mut u) {
                Err(_) => Some("ARBERR".to_string()),
                Ok(pw) => {
                    let mut o = Vec::new();
                    for s in &pw.segments {
                        o.push(s.end);
                        o.push(s.poly.0);
                    }
                    Some(out(&o))
                }
            }
        }
        "linear" => {
            let pw = linear(&knots_of(a));
            let mut o = Vec::new();
            for s in &pw.segments {
                o.extend(s.to_flat());
            }
            Some(out(&o))
        }
        "spline" => {
            let pw = constrained_spline(&knots_of(a));
            let mut o = Vec::new();
            for s in &pw.segments {
                o.extend(s.to_flat());
            }
            Some(out(&o))
        }
        "ln" => Some(out(&[a[0].ln()])),
        "exp" => Some(out(&[a[0].exp()])),
        _ => None,
    }
}

fn main() {
    std::panic::set_hook(Box::new(|_| {}));
    let stdin = io::stdin();
    let stdout = io::stdout();
    let mut w = stdout.lock();
    for line in stdin.lock().lines() {
        let line = line.unwrap();
        let mut it = line.split_whitespace();
        let (op, ty) = match (it.next(), it.next()) {
            (Some(o), Some(t)) => (o.to_string(), t.to_string()),
            _ => {
                writeln!(w, "ERR empty").unwrap();
                continue;
            }
        };
        let nums: Result<Vec<f64>, _> =
            it.map(|h| u64::from_str_radix(h, 16).map(f64::from_bits)).collect();
        let nums = match nums {
            Ok(n) => n,
            Err(_) => {
                writeln!(w, "ERR hex").unwrap();
                continue;
            }
        };
        let r = std::panic::catch_unwind(|| handle(&op, &ty, &nums));
        match r {
            Ok(Some(s)) => writeln!(w, "{}", s).unwrap(),
            Ok(None) => writeln!(w, "ERR unknown {} {}", op, ty).unwrap(),
            Err(_) => writeln!(w, "PANIC").unwrap(),
        }
    }
}
