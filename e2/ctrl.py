"""Control-code encodings in E2: Piecewise::evaluate, evaluate_v, PiecewiseEvaluator and the +/- merges executed
symbolically from their MIR with symbolic binary64 breakpoints and arguments, for segment counts far beyond what
CBMC finishes.  The piece type is Poly0 whose `evaluate` is stubbed by an uninterpreted function EV(piece value, x), so
"which piece was evaluated at which argument" is decided by congruence, with no floating-point arithmetic involved.
"""
import re

import z3

import api
from domains import FPDomain, Num
from interp import Array, Cell, Interp, Opt, Ref, SliceRef, Struct, Tuple, VecV, Unsupported, PathLimit, read_path

F64 = z3.Float64()
RS = z3.RealSort()


class Kit:
    """Number kit for the control encodings.
    fp:   binary64 bit-precise (NaN representable) -- used at small sizes and for NaN histories.
    real: breakpoints and arguments as reals.  Non-NaN binary64 values under IEEE comparison form a total preorder
          (-0 == +0) that embeds order-isomorphically into the reals (+-inf as any reals beyond the finite ones), and the
          control code only COMPARES breakpoints and arguments, so every comparison outcome pattern of non-NaN floats is a
          real model and vice versa; the queries become linear real arithmetic + congruence and scale to large sizes.
          (If changed code did arithmetic on breakpoints the real interpretation would be its exact-arithmetic meaning.)"""

    def __init__(self, real):
        self.real = real
        self.sort = RS if real else F64
        self.EV = z3.Function("EV_piece_r" if real else "EV_piece", self.sort, self.sort, self.sort)
        self.COMB = z3.Function("COMB_pieces_r" if real else "COMB_pieces", self.sort, self.sort, z3.IntSort(), self.sort)
        from domains import RealDomain
        self.dom = RealDomain(False) if real else FPDomain()

    def var(self, name):
        return z3.Real(name) if self.real else z3.FP(name, F64)

    def gt(self, a, b):
        return a > b if self.real else z3.fpGT(a, b)

    def le(self, a, b):
        return a <= b if self.real else z3.fpLEQ(a, b)

    def not_nan(self, a):
        return z3.BoolVal(True) if self.real else z3.Not(z3.fpIsNaN(a))

    def is_nan(self, a):
        return z3.BoolVal(False) if self.real else z3.fpIsNaN(a)

    def same(self, a, b):
        return a == b if self.real else z3.Or(a == b, z3.And(z3.fpIsNaN(a), z3.fpIsNaN(b)))

    def ends_ok(self, ends):
        c = [self.not_nan(e) for e in ends]
        c += [self.le(ends[i], ends[i + 1]) for i in range(len(ends) - 1)]
        c += self.bounded(ends)
        return c

    def bounded(self, vs):
        """real kit: the order-only symbols for -inf / +inf bracket every value"""
        if not self.real:
            return []
        lo, hi = z3.Real("NEG_INF!"), z3.Real("POS_INF!")
        return [z3.And(lo <= v, v <= hi) for v in vs] + [lo < hi]

    def spec_piece_chain(self, ends, pieces, x):
        t = pieces[-1]
        for i in range(len(ends) - 1, -1, -1):
            t = z3.If(self.gt(ends[i], x), pieces[i], t)
        return t

    def fmax_chain(self, xs, k):
        m = xs[0]
        for i in range(1, k + 1):
            m = z3.If(self.gt(xs[i], m), xs[i], m)
        return m


EV = z3.Function("EV_piece", F64, F64, F64)
COMB = z3.Function("COMB_pieces", F64, F64, z3.IntSort(), F64)  # (piece of f, piece of g, operator) -> piece


def fp(name):
    return z3.FP(name, F64)


def ends_ok(ends):
    c = [z3.Not(z3.fpIsNaN(e)) for e in ends]
    c += [z3.fpLEQ(ends[i], ends[i + 1]) for i in range(len(ends) - 1)]
    return c


def spec_piece(ends, pieces, x):
    """ite-chain of the property's rule: first piece whose end > x, else the last"""
    t = pieces[-1]
    for i in range(len(ends) - 2, -1, -1):
        t = z3.If(z3.fpGT(ends[i], x), pieces[i], t)
    if len(ends) >= 1:
        t = z3.If(z3.fpGT(ends[0], x), pieces[0], t) if len(ends) == 1 else t
    return t


def spec_piece_chain(ends, pieces, x):
    t = pieces[-1]
    for i in range(len(ends) - 1, -1, -1):
        t = z3.If(z3.fpGT(ends[i], x), pieces[i], t)
    return t


def make_pw(dom, n, prefix="e", pprefix="p"):
    segs = [Struct("Segment", [dom.sym("%s%d" % (prefix, i)), Struct("Poly0", [dom.sym("%s%d" % (pprefix, i))])]) for i in range(n)]
    return Struct("Piecewise", [VecV(segs)])


def ev_stub(dom, kit=None):
    evf = kit.EV if kit is not None else EV

    def pred(f, args):
        if not f.name.endswith("::evaluate") or len(args) != 2 or not isinstance(args[0], Ref):
            return False
        tgt = read_path(args[0].cell, args[0].path)
        return isinstance(tgt, Struct) and tgt.name == "Poly0"

    def handler(it, args):
        tgt = read_path(args[0].cell, args[0].path)
        return Num(dom, evf(tgt.fields[0].t, args[1].t))
    pred.__name__ = "Poly0::evaluate -> EV(piece, x)"
    return pred, handler


def solver_feasible(assumptions, cap_ms=2000):
    s = z3.Solver()
    s.set("timeout", cap_ms)
    s.add(*assumptions)

    def feasible(conds):
        s.push()
        s.add(*conds)
        r = s.check()
        s.pop()
        return r != z3.unsat
    return feasible


def merged_result(dom, paths):
    rows = [(p, None if p.panic is not None else api.flat(p.result), None) for p in paths]
    return api._merge(dom, rows)


# ------------------------------------------------------------------------------------------------ C02
def direct_evaluate(e, n, real=False):
    """Piecewise::evaluate on n symbolic segments.  Returns (assumptions, merged result term, spec term, MergedPath, vars)."""
    kit = Kit(real)
    dom = kit.dom
    it = Interp(e.program, dom, max_paths=8 * n + 64)
    it.stub_preds.append(ev_stub(dom, kit))
    fn = None

    def body(itp):
        pw = make_pw(dom, n)
        args = [Ref(Cell(pw)), dom.sym("x")]
        f = e.program.find_method("evaluate", args)
        return itp.call_function(f, args)
    paths = it.explore_body(body)
    e.rep.functions.update(it.functions_run)
    ends = [kit.var("e%d" % i) for i in range(n)]
    pieces = [kit.var("p%d" % i) for i in range(n)]
    x = kit.var("x")
    mp, nums = merged_result(dom, paths)
    spec = kit.spec_piece_chain(ends, [kit.EV(p, x) for p in pieces], x)
    assum = kit.ends_ok(ends) + [kit.not_nan(x)] + kit.bounded([x])
    return assum, nums[0].t, spec, mp, {"ends": ends, "pieces": pieces, "x": x, "paths": len(paths), "kit": kit}


# ------------------------------------------------------------------------------------------------ C12
class CountingArrayIter:
    """by-value iterator over the argument array that counts how many items were pulled (laziness)"""

    def __init__(self, items):
        self.items, self.i = items, 0


def evaluate_v_run(e, n, q, non_decreasing=False, real=False):
    """evaluate_v over n segments and q arguments. Returns per-path data:
    list of (path, [output terms], [pulled-after-each-output]) plus the vars."""
    from interp import IterBase

    class Counting(IterBase):
        def __init__(self, items):
            self.items, self.i, self.pulled = items, 0, 0

        def next(self, it):
            if self.i >= len(self.items):
                return None
            v = self.items[self.i]
            self.i += 1
            self.pulled += 1
            return v

        def clone(self):
            c = Counting(self.items)
            c.i, c.pulled = self.i, self.pulled
            return c

    kit = Kit(real)
    dom = kit.dom
    ends = [kit.var("e%d" % i) for i in range(n)]
    xs = [kit.var("x%d" % i) for i in range(q)]
    assum = kit.ends_ok(ends) + [kit.not_nan(v) for v in xs] + kit.bounded(xs)
    if non_decreasing:
        assum += [kit.le(xs[i], xs[i + 1]) for i in range(q - 1)]
    it = Interp(e.program, dom, max_paths=200000)
    it.stub_preds.append(ev_stub(dom, kit))

    def body(itp):
        pw = make_pw(dom, n)
        src = Counting([dom.sym("x%d" % i) for i in range(q)])
        args = [Ref(Cell(pw)), src]
        f = e.program.find_method("evaluate_v", args)
        from interp import into_iter
        out_iter = into_iter(itp.call_function(f, args))  # std adaptor chain or a crate type implementing Iterator
        outs, pulled = [], [src.pulled]
        for k in range(q + 1):
            r = out_iter.next(itp)
            outs.append(r)
            pulled.append(src.pulled)
        return Tuple([outs, pulled])
    paths = it.explore_body(body, feasible=solver_feasible(assum))
    e.rep.functions.update(it.functions_run)
    return assum, paths, {"ends": ends, "pieces": [kit.var("p%d" % i) for i in range(n)], "xs": xs, "kit": kit}


# ------------------------------------------------------------------------------------------------ C03 / C16
def evaluator_run(e, n, q, allow_nan=False, real=False):
    """PiecewiseEvaluator::new + q evaluate calls on shared state."""
    kit = Kit(real)
    dom = kit.dom
    ends = [kit.var("e%d" % i) for i in range(n)]
    xs = [kit.var("x%d" % i) for i in range(q)]
    assum = kit.ends_ok(ends) + kit.bounded(xs)
    if not allow_nan:
        assum += [kit.not_nan(v) for v in xs]
    it = Interp(e.program, dom, max_paths=400000)
    it.stub_preds.append(ev_stub(dom, kit))

    def body(itp):
        pw = make_pw(dom, n)
        cell = Cell(pw)
        segs = SliceRef(cell, (0,), 0, n)
        fnew = [f for f in e.program.by_method.get("new", []) if "PiecewiseEvaluator" in (f.ret or "")]
        if len(fnew) != 1:
            raise Unsupported("PiecewiseEvaluator::new not found")
        ev = itp.call_function(fnew[0], [segs])
        evc = Cell(ev)
        outs = []
        for k in range(q):
            args = [Ref(evc), dom.sym("x%d" % k)]
            f = e.program.find_method("evaluate", args)
            outs.append(itp.call_function(f, args))
        return Tuple([outs])
    paths = it.explore_body(body, feasible=solver_feasible(assum))
    e.rep.functions.update(it.functions_run)
    return assum, paths, {"ends": ends, "pieces": [kit.var("p%d" % i) for i in range(n)], "xs": xs, "kit": kit}


# ------------------------------------------------------------------------------------------------ C13
def comb_stub(dom):
    """&a + &b / &a - &b on the piece type IntOfLogPoly4 -> a piece whose k is COMB(a.k, b.k, op); other numbers zero."""
    def pred(f, args):
        if not (f.name.endswith("::add") or f.name.endswith("::sub")) or len(args) != 2:
            return False
        if not all(isinstance(a, Ref) for a in args):
            return False
        t0 = read_path(args[0].cell, args[0].path)
        return isinstance(t0, Struct) and t0.name == "IntOfLogPoly4"

    def handler(it, args):
        raise Unsupported("comb stub needs the operator; installed per call site")
    return pred, handler


def merge_run(e, n, m, sub, real=False):
    kit = Kit(real)
    dom = kit.dom
    ef = [kit.var("ef%d" % i) for i in range(n)]
    eg = [kit.var("eg%d" % i) for i in range(m)]
    assum = kit.ends_ok(ef) + kit.ends_ok(eg)
    it = Interp(e.program, dom, max_paths=400000)

    def pred(f, args):
        if not (f.name.endswith("::add") or f.name.endswith("::sub")) or len(args) != 2:
            return False
        if not all(isinstance(a, Ref) for a in args):
            return False
        t0 = read_path(args[0].cell, args[0].path)
        return isinstance(t0, Struct) and t0.name == "IntOfLogPoly4"

    def handler(itp, args):
        a = read_path(args[0].cell, args[0].path)
        b = read_path(args[1].cell, args[1].path)
        # which operator was applied to the pieces is part of the claim
        opc = 2 if handler.last_fn.endswith("::sub") else 1
        k = kit.COMB(a.fields[0].t, b.fields[0].t, z3.IntVal(opc))
        zero = dom.const(0.0)
        return Struct("IntOfLogPoly4", [Num(dom, k), Array([zero, zero, zero, zero]), zero])

    def pred2(f, args):
        ok = pred(f, args)
        if ok:
            handler.last_fn = f.name
        return ok
    pred2.__name__ = "&IntOfLogPoly4 +/- &IntOfLogPoly4 -> COMB(a.k, b.k, op)"
    it.stub_preds.append((pred2, handler))

    def mk(prefix, pp, cnt):
        zero = dom.const(0.0)
        segs = [Struct("Segment", [dom.sym("%s%d" % (prefix, i)),
                                   Struct("IntOfLogPoly4", [dom.sym("%s%d" % (pp, i)), Array([zero, zero, zero, zero]), zero])])
                for i in range(cnt)]
        return Struct("Piecewise", [VecV(segs)])

    def body(itp):
        f_, g_ = mk("ef", "pf", n), mk("eg", "pg", m)
        args = [Ref(Cell(f_)), Ref(Cell(g_))]
        cands = [fn for fn in e.program.by_method.get("sub" if sub else "add", []) if "Piecewise" in (fn.params[0][1] if fn.params else "")]
        if len(cands) != 1:
            raise Unsupported("merge impl not found")
        return itp.call_function(cands[0], args)
    paths = it.explore_body(body, feasible=solver_feasible(assum))
    e.rep.functions.update(it.functions_run)
    return assum, paths, {"ef": ef, "eg": eg, "pf": [kit.var("pf%d" % i) for i in range(n)], "pg": [kit.var("pg%d" % i) for i in range(m)],
                          "kit": kit}


# ------------------------------------------------------------------------------------------------ C19
def arbitrary_run(e, k, piece_failures=True):
    """The library's own logic in <Piecewise<T> as Arbitrary>::arbitrary, from its MIR, with the dependency's decoders
    replaced by their contract: Vec<f64>::arbitrary returns ANY vector (here: k symbolic binary64 values, NaN/inf/
    subnormal/zero included), T::arbitrary returns Ok(any piece) or Err.  Bit-precise FP kit."""
    from interp import ResV
    dom = FPDomain()
    it = Interp(e.program, dom, max_paths=200000)
    counter = {"i": 0}

    def is_vec_arbitrary(f, args):
        return False
    ends = [fp("end%d" % i) for i in range(k)]

    # the two dependency calls are not crate functions: intercept them by callee text through do_call
    orig_do_call = it.do_call

    def do_call(callee, args):
        is_arb = ("as Arbitrary" in callee and callee.rstrip().endswith("::arbitrary")) or \
            re.match(r"^(?:arbitrary::)?Unstructured::<.*>::arbitrary::<.*>$", callee.strip(), re.S) is not None
        if is_arb:
            if "Vec<f64>" in callee:
                return ResV(True, VecV([dom.sym("end%d" % i) for i in range(k)]))
            # piece type
            i = counter["i"]
            counter["i"] += 1
            if piece_failures:
                okb = z3.Bool("piece_ok%d" % i)
                if not it.decide(okb):
                    return ResV(False, Struct("Error", []))
            return ResV(True, Struct("Poly0", [dom.sym("piece%d" % i)]))
        return orig_do_call(callee, args)
    it.do_call = do_call

    def body(itp):
        counter["i"] = 0
        cands = [fn for fn in e.program.by_method.get("arbitrary", []) if "Piecewise" in (fn.ret or "")]
        if len(cands) != 1:
            raise Unsupported("Arbitrary impl for Piecewise not found")
        return itp.call_function(cands[0], [Ref(Cell(Struct("Unstructured", [])))])
    paths = it.explore_body(body, feasible=solver_feasible([]))
    e.rep.functions.update(it.functions_run)
    return paths, ends
