"""Engine E2: obligations over the MIR of /repo's working tree, decided by z3.

prove():  assumptions |= goal ?   (unsat of assumptions & not goal)
  * vacuity: the assumptions alone must be satisfiable (model recorded as witness)
  * unsat -> discharged; sat -> violated (model handed to the property's native replay);
    unknown / time-out -> inconclusive (never a pass, never a violation)
expect_sat(): tightness / reachability twins: the query must be satisfiable.
"""
import json
import os
import subprocess
import sys
import time
from fractions import Fraction

import z3

HERE = os.path.dirname(os.path.abspath(__file__))
sys.path.insert(0, HERE)
sys.path.insert(0, os.path.join(os.path.dirname(HERE), "lib"))

import mirdump  # noqa: E402
from common import BUILD, VERIF, REPLAY_DIR, Obligation, Violation, log  # noqa: E402
from domains import FPDomain, RealDomain, Num, bits2f, f2bits  # noqa: E402
from interp import (Array, Cell, Interp, Program, Ref, SliceRef, Struct, Tuple, Unsupported, VecV,  # noqa: E402
                    PathLimit, Panic)
import builtins_model  # noqa: E402

NATIVE_DIR = os.path.join(VERIF, "native")

E2_TRUSTED = ["rustc nightly -Zunpretty=mir dump of the current working tree (regenerated every run)",
              "own MIR parser + symbolic interpreter (/verif/e2), validated every run against the native crate on concrete inputs",
              "z3 5.1.0 (python API); thorough tier cross-checks every query text with z3 4.8.12 and cvc5 1.0",
              "models of std items in /verif/e2/builtins_model.py (slice/Vec/Option/iterator adaptors, f64 intrinsics)"]


class Native:
    """The real crate, executed natively (dev and release profile)."""

    def __init__(self, features=()):
        self.bins = {}
        self.features = tuple(features)

    def build(self):
        tdir = "native_target" + "".join("_" + f for f in self.features)
        for profile in ("dev", "release"):
            env = dict(os.environ)
            env["CARGO_NET_OFFLINE"] = "true"
            env["CARGO_TARGET_DIR"] = os.path.join(BUILD, tdir)
            env.pop("RUSTFLAGS", None)
            cmd = ["cargo", "build", "--offline", "-q"] + (["--release"] if profile == "release" else [])
            if self.features:
                cmd += ["--features", ",".join(self.features)]
            r = subprocess.run(cmd, cwd=NATIVE_DIR, env=env, stdout=subprocess.PIPE, stderr=subprocess.STDOUT, text=True)
            if r.returncode != 0:
                raise RuntimeError("native oracle build failed: " + r.stdout[-2000:])
            self.bins[profile] = os.path.join(BUILD, tdir, "debug" if profile == "dev" else "release",
                                              "pp_verif_native")

    def run(self, requests, profile="dev"):
        """requests: list of (op, ty, [floats]) -> list of reply (list of floats | 'PANIC' | 'ERR..' | int)"""
        if not self.bins:
            self.build()
        lines = []
        for op, ty, nums in requests:
            lines.append("%s %s %s" % (op, ty, " ".join("%016x" % f2bits(float(x)) for x in nums)))
        r = subprocess.run([self.bins[profile]], input="\n".join(lines) + "\n", stdout=subprocess.PIPE,
                           stderr=subprocess.DEVNULL, text=True)
        out = []
        for l in r.stdout.strip().split("\n"):
            l = l.strip()
            if l.startswith(("PANIC", "ERR", "ARBERR")):
                out.append(l)
            elif len(l) == 1 and l in "01":
                out.append(int(l))
            else:
                out.append([bits2f(int(h, 16)) for h in l.split()])
        if len(out) != len(requests):
            raise RuntimeError("native oracle: %d replies for %d requests" % (len(out), len(requests)))
        return out


def model_value(model, term):
    """z3 model value of a Real/FP term -> python Fraction or float (None if unavailable)."""
    v = model.eval(term, model_completion=True)
    if z3.is_fp(v):
        if z3.is_fprm(v):
            return None
        try:
            if v.isNaN():
                return float("nan")
            if v.isInf():
                return float("-inf") if v.isNegative() else float("inf")
            bv = z3.simplify(z3.fpToIEEEBV(v))
            return bits2f(bv.as_long())
        except Exception:
            return None
    if z3.is_rational_value(v):
        return Fraction(v.numerator_as_long(), v.denominator_as_long())
    if z3.is_algebraic_value(v):
        a = v.approx(30)
        return Fraction(a.numerator_as_long(), a.denominator_as_long())
    return None


def show(v):
    if isinstance(v, Fraction):
        return str(v) if v.denominator < 10 ** 6 else repr(float(v))
    return repr(v)


class E2:
    def __init__(self, rep, tier, features=()):
        self.rep = rep
        self.tier = tier
        self.features = tuple(features)
        self.cap_ms = int(os.environ.get("VERIF_SMT_CAP_MS", "20000" if tier == "quick" else "300000"))
        mf = os.environ.get("VERIF_MIR_FILE")
        if mf and os.path.exists(mf):
            # a part of a parallel check: the parent dumped the MIR of the current working tree for this run
            with open(mf) as f:
                d = json.load(f)
            mir, sources = d["mir"], d["sources"]
        else:
            mir, sources = mirdump.dump(self.features)
        self.mir_text, self.sources = mir, sources
        self.program = Program(mir, sources)
        self.native = Native(self.features)
        self.smt2_dir = os.path.join(BUILD, "smt2", rep.prop)
        for t in E2_TRUSTED:
            if t not in rep.trusted_base:
                rep.trusted_base.append(t)
        rep.assumptions.append("REAL-delta obligations: standard model fl(a op b) = (a op b)(1+d), |d| <= 2^-53, i.e. no "
                               "intermediate overflow/underflow (the properties' own proviso); libm ln/exp are uninterpreted")
        self.n_queries = 0
        self.cross = []
        self._pool = None
        self._futures = []

    # ---------------------------------------------------------------- interpreter helpers
    def interp(self, dom, max_paths=256):
        return Interp(self.program, dom, max_paths=max_paths)

    def run_fn(self, dom, fn, make_args, max_paths=256):
        it = self.interp(dom, max_paths)
        paths = it.explore(fn, make_args)
        return paths

    # ---------------------------------------------------------------- solver
    def _solver(self, cap_ms=None):
        s = z3.Solver()
        s.set("timeout", cap_ms or self.cap_ms)
        return s

    def check(self, constraints, cap_ms=None, tag=None):
        s = self._solver(cap_ms)
        for c in constraints:
            s.add(c)
        t0 = time.time()
        r = s.check()
        dt = time.time() - t0
        self.n_queries += 1
        model = s.model() if r == z3.sat else None
        if self.tier == "thorough" and tag:
            self._cross_check(s, r, tag)
        return r, model, dt

    def _cross_check(self, s, r, tag):
        """Second/third solver on the same query text (thorough tier); runs in a worker pool, joined in finish()."""
        try:
            os.makedirs(self.smt2_dir, exist_ok=True)
            import re as _re
            path = os.path.join(self.smt2_dir, "q%05d_%s.smt2" % (self.n_queries, _re.sub(r"[^A-Za-z0-9_.-]", "_", tag)[:120]))
            with open(path, "w") as f:
                f.write("(set-logic ALL)\n" + s.to_smt2())
        except Exception as ex:
            self.cross.append({"query": tag, "error": str(ex)})
            return
        if self._pool is None:
            from concurrent.futures import ThreadPoolExecutor
            self._pool = ThreadPoolExecutor(max_workers=max(2, min(12, (os.cpu_count() or 4) - 2)))
        self._futures.append(self._pool.submit(self._cross_job, path, str(r), tag))

    def _cross_job(self, path, mine, tag):
        res = {}
        cap = int(os.environ.get("VERIF_CROSS_CAP_S", "20"))
        for name, cmd in (("z3-4.8.12", ["/usr/bin/z3", "-T:%d" % cap, path]),
                          ("cvc5", ["cvc5", "--lang", "smt2", "--tlimit=%d" % (cap * 1000), path])):
            try:
                p = subprocess.run(cmd, stdout=subprocess.PIPE, stderr=subprocess.STDOUT, text=True, timeout=cap + 10)
                out = p.stdout.strip().split("\n")
                first = out[0].strip() if out else ""
                if any("(error" in l for l in out):
                    first = "error"
                res[name] = first
            except Exception:
                res[name] = "n/a"
        try:
            os.remove(path)
        except OSError:
            pass
        disagree = [n for n, v in res.items() if v in ("sat", "unsat") and mine in ("sat", "unsat") and v != mine]
        rec = {"query": tag, "z3-5.1": mine}
        rec.update(res)
        return rec, disagree

    def _join_cross(self):
        agree = {"z3-4.8.12": 0, "cvc5": 0}
        for fut in self._futures:
            try:
                rec, disagree = fut.result()
            except Exception as ex:
                self.cross.append({"error": str(ex)})
                continue
            for k in agree:
                if rec.get(k) == rec.get("z3-5.1") and rec.get(k) in ("sat", "unsat"):
                    agree[k] += 1
            if disagree or len(self.cross) < 40:
                self.cross.append(rec)
            if disagree:
                self.rep.add(Obligation("crosscheck:" + rec["query"], "E2-cross", "solvers agree on the query", "inconclusive",
                                        detail="solver disagreement: %r" % (rec,)))
        if self._futures:
            self.rep.self_tests["cross_check_summary"] = {"queries": len(self._futures), "agreeing_verdicts": agree,
                                                          "note": "timeouts/unknown of the second solver are not disagreements"}
        if self._pool is not None:
            self._pool.shutdown()

    def prove(self, name, what, assumptions, goal, *, dom_name, functions, witness_terms=None, role=None,
              replay=None, cap_ms=None, extra_bounds=None, prefer=None):
        """assumptions: list of z3 bools; goal: z3 bool.  Adds an Obligation to the report."""
        engine = "E2-z3-" + dom_name
        bounds = dict(extra_bounds or {})
        # 1. vacuity witness
        r0, m0, t0 = self.check(assumptions, cap_ms=min(cap_ms or self.cap_ms, 20000))
        witness = None
        if r0 == z3.unsat:
            ob = Obligation(name, engine, what, "inconclusive", t0, detail="assumptions are unsatisfiable (vacuous)",
                            functions=functions, bounds=bounds, role=role)
            return self.rep.add(ob)
        if r0 == z3.sat and witness_terms:
            witness = {k: show(model_value(m0, t)) for k, t in witness_terms.items()}
        elif r0 == z3.sat:
            witness = {"assumptions": "satisfiable"}
        # 2. the claim
        r, m, t1 = self.check(list(assumptions) + [z3.Not(goal)], cap_ms=cap_ms, tag=name)
        if r == z3.unsat:
            st = "discharged" if r0 == z3.sat else "inconclusive"
            detail = None if r0 == z3.sat else "claim proved but satisfiability of the assumptions is unknown"
            ob = Obligation(name, engine, what, st, t0 + t1, functions=functions, bounds=bounds,
                            witness=witness, role=role, detail=detail)
            return self.rep.add(ob)
        if r == z3.sat:
            if prefer:
                # try to obtain a more readable counterexample (finite, moderate magnitudes)
                r2, m2, t2 = self.check(list(assumptions) + [z3.Not(goal)] + list(prefer), cap_ms=5000)
                if r2 == z3.sat:
                    m = m2
            model = {}
            if witness_terms:
                model = {k: show(model_value(m, t)) for k, t in witness_terms.items()}
            ob = Obligation(name, engine, what, "violated", t0 + t1, functions=functions, bounds=bounds,
                            model=model, role=role, detail="solver returned a counterexample")
            self.rep.add(ob)
            if replay is not None:
                try:
                    ok, path, desc = replay(m, ob)
                except Exception as e:
                    ok, path, desc = False, None, "replay raised %r" % (e,)
                ob.detail += " | replay: " + str(desc)
                if ok:
                    self.rep.violations.append(Violation(self.rep.prop, ob, path, "%s: %s" % (role or name, desc),
                                                         role or name))
                else:
                    self.rep.unreplayed.append((ob, desc))
            else:
                self.rep.unreplayed.append((ob, "no native replay defined for this obligation"))
            return ob
        ob = Obligation(name, engine, what, "inconclusive", t0 + t1, functions=functions, bounds=bounds,
                        detail="solver answered %s within %d ms" % (r, cap_ms or self.cap_ms), role=role)
        return self.rep.add(ob)

    def prove_cases(self, name, what, assumptions, cases, *, dom_name, functions, witness_terms=None, role=None, replay=None,
                    cap_ms=None, extra_bounds=None, prefer=None):
        """One obligation decided by one solver query per case: for every (case condition, goal):
        assumptions & condition |= goal.  Used for path-enumerated control code (hundreds of small queries instead of one
        large if-then-else formula).  A shared incremental solver holds the assumptions."""
        engine = "E2-z3-" + dom_name
        bounds = dict(extra_bounds or {})
        bounds["cases"] = len(cases)
        s = self._solver(cap_ms)
        for a in assumptions:
            s.add(a)
        t0 = time.time()
        r0 = s.check()
        self.n_queries += 1
        if r0 != z3.sat:
            return self.rep.add(Obligation(name, engine, what, "inconclusive", time.time() - t0,
                                           detail="assumptions are not satisfiable (%s)" % r0, functions=functions, bounds=bounds, role=role))
        m0 = s.model()
        witness = {k: show(model_value(m0, t)) for k, t in (witness_terms or {}).items()} or {"assumptions": "satisfiable"}
        bad_model, unknown = None, 0
        for (cond, goal) in cases:
            # a fresh (non-incremental) solver per case: z3's incremental core is far slower on the FP theory
            sc = self._solver(cap_ms)
            sc.add(*assumptions)
            sc.add(cond, z3.Not(goal))
            r = sc.check()
            self.n_queries += 1
            if r == z3.sat:
                bad_model = sc.model()
                if prefer:
                    sc.add(*prefer)
                    if sc.check() == z3.sat:
                        bad_model = sc.model()
                break
            if r != z3.unsat:
                unknown += 1
        dt = time.time() - t0
        if bad_model is not None:
            model = {k: show(model_value(bad_model, t)) for k, t in (witness_terms or {}).items()}
            ob = Obligation(name, engine, what, "violated", dt, functions=functions, bounds=bounds, model=model, role=role,
                            detail="solver returned a counterexample")
            self.rep.add(ob)
            if replay is not None:
                try:
                    ok, path, desc = replay(bad_model, ob)
                except Exception as ex:
                    ok, path, desc = False, None, "replay raised %r" % (ex,)
                ob.detail += " | replay: " + str(desc)
                if ok:
                    self.rep.violations.append(Violation(self.rep.prop, ob, path, "%s: %s" % (role or name, desc), role or name))
                else:
                    self.rep.unreplayed.append((ob, desc))
            else:
                self.rep.unreplayed.append((ob, "no native replay defined for this obligation"))
            return ob
        if unknown:
            return self.rep.add(Obligation(name, engine, what, "inconclusive", dt, functions=functions, bounds=bounds, role=role,
                                           detail="%d of %d case queries answered unknown within the cap" % (unknown, len(cases))))
        return self.rep.add(Obligation(name, engine, what, "discharged", dt, functions=functions, bounds=bounds, witness=witness, role=role))

    def expect_sat(self, name, what, constraints, *, dom_name, functions, witness_terms=None, cap_ms=None):
        """Tightness / reachability twin: must be satisfiable, else the sibling claim is suspect (vacuous box)."""
        r, m, t = self.check(constraints, cap_ms=cap_ms, tag=name)
        engine = "E2-z3-" + dom_name
        if r == z3.sat:
            w = {k: show(model_value(m, tm)) for k, tm in (witness_terms or {}).items()} or {"sat": True}
            return self.rep.add(Obligation(name, engine, what, "discharged", t, functions=functions, witness=w))
        return self.rep.add(Obligation(name, engine, what, "inconclusive", t, functions=functions,
                                       detail="twin query expected sat, got %s" % r))

    def not_encoded(self, name, what, why, functions=()):
        return self.rep.add(Obligation(name, "E2", what, "not_encoded", 0.0, detail=str(why)[:500],
                                       functions=list(functions)))

    # ---------------------------------------------------------------- replay files
    def write_replay(self, name, payload):
        d = os.path.join(REPLAY_DIR, self.rep.prop)
        os.makedirs(d, exist_ok=True)
        path = os.path.join(d, name.replace("/", "_").replace(" ", "_").replace(":", "_")[:120] + ".json")
        with open(path, "w") as f:
            json.dump(payload, f, indent=1, default=str)
        return path

    def finish(self):
        self._join_cross()
        self.rep.self_tests["std_models_used"] = sorted(builtins_model.USED)
        self.rep.self_tests["smt_queries"] = self.n_queries
        if self.cross:
            self.rep.self_tests["cross_checks"] = self.cross
        self.rep.bounds.setdefault("smt_cap_ms_per_query", self.cap_ms)


def canon_fp(t, _cache=None):
    """Sort the operands of the commutative IEEE operations fp.add / fp.mul (and the product operands of fp.fma) by AST
    id, recursively.  x*y and y*x are the same binary64 value, but proving that by bit-blasting a 53-bit multiplier is
    slow and erratic; after canonicalisation the two sides are syntactically equal."""
    if _cache is None:
        _cache = {}
    key = t.get_id()
    if key in _cache:
        return _cache[key]
    if not z3.is_app(t) or t.num_args() == 0:
        _cache[key] = t
        return t
    ch = [canon_fp(c, _cache) for c in t.children()]
    k = t.decl().kind()
    if k in (z3.Z3_OP_FPA_MUL, z3.Z3_OP_FPA_ADD) and len(ch) == 3:
        a, b = sorted(ch[1:], key=lambda x: x.get_id())
        r = (z3.fpMul if k == z3.Z3_OP_FPA_MUL else z3.fpAdd)(ch[0], a, b)
    elif k == z3.Z3_OP_FPA_FMA and len(ch) == 4:
        a, b = sorted(ch[1:3], key=lambda x: x.get_id())
        r = z3.fpFMA(ch[0], a, b, ch[3])
    else:
        r = t.decl()(*ch)
    _cache[key] = r
    return r


def purify(formulas, names=("ln_real", "exp_real")):
    """Replace applications of the uninterpreted real functions by fresh real variables (one per syntactically distinct
    argument), so that the query is pure nonlinear real arithmetic.  This forgets functional consistency between
    syntactically different but equal arguments, i.e. it proves a stronger statement."""
    table = {}

    def collect(t):
        if z3.is_app(t):
            if t.decl().name() in names and t.num_args() == 1:
                key = t.decl().name() + "|" + t.arg(0).sexpr()
                if key not in table:
                    table[key] = (t, z3.Real("%s!%d" % (t.decl().name(), len(table))))
            for ch in t.children():
                collect(ch)

    for f in formulas:
        collect(f)
    subs = list(table.values())
    # substitute outermost applications first is unnecessary: z3.substitute matches whole terms simultaneously
    out = [z3.substitute(f, *subs) if subs else f for f in formulas]
    return out, {str(v): t for (t, v) in subs}


# ------------------------------------------------------------------ value builders
def poly_value(dom, k, names=None, prefix="c"):
    """PolyK with symbolic (or given) coefficients. Returns (Struct, [Num])."""
    if names is None:
        nums = [dom.sym("%s%d" % (prefix, i)) for i in range(k + 1)]
    else:
        nums = names
    if k == 0:
        return Struct("Poly0", [nums[0]]), nums
    return Struct("Poly%d" % k, [Array(list(nums))]), nums


def polyn_value(dom, n, prefix="c"):
    nums = [dom.sym("%s%d" % (prefix, i)) for i in range(n)]
    return Struct("PolyN", [VecV(list(nums))]), nums


def knot_value(dom, prefix):
    x, y = dom.sym(prefix + "x"), dom.sym(prefix + "y")
    return Struct("Knot", [x, y]), x, y


def ref(v):
    return Ref(Cell(v))


def flat_nums(v):
    """All Nums of a value in declaration order."""
    if isinstance(v, Num):
        return [v]
    if isinstance(v, (Struct, Tuple, Array, VecV)):
        out = []
        for f in v.fields:
            out.extend(flat_nums(f))
        return out
    return []
