"""Symbolic interpreter for the MIR of /repo.

Execution model: *re-execution with a decision trace*.  A run executes the entry function
from scratch with ordinary Python recursion for calls; whenever a branch condition is a
symbolic boolean the run follows the prescribed decision (or True when the prescription is
exhausted) and the alternative is queued.  `explore()` returns one Path per feasible-looking
decision sequence, each with its path condition, its result and the side constraints that
the number domain introduced (rounding variables, quotient definitions).

Values
  Num                float in the chosen domain (domains.py)
  int / bool         concrete integers and booleans (container sizes are always concrete)
  z3 BoolRef         symbolic boolean
  Struct/Tuple/Array/VecV/Opt/Unit, Ref(cell,path), SliceRef, iterator objects

Anything outside the supported subset raises Unsupported, which the caller reports as an
obligation that is *not encoded* -- never as a pass.
"""
import copy
import re

import time
import z3

import mirparse as mp
from domains import Num


class Unsupported(Exception):
    pass


class Panic(Exception):
    def __init__(self, msg):
        super().__init__(msg)
        self.msg = msg


class PathLimit(Exception):
    pass


# ------------------------------------------------------------------ values
class Cell:
    __slots__ = ("v",)

    def __init__(self, v=None):
        self.v = v


class Struct:
    def __init__(self, name, fields, generic=None):
        self.name = name  # bare type name: 'Poly3', 'Knot', 'Segment', '{closure@...}'
        self.fields = fields

    def __repr__(self):
        return "%s%r" % (self.name, self.fields)


class Tuple:
    def __init__(self, fields):
        self.fields = fields

    def __repr__(self):
        return "T%r" % (self.fields,)


class Array:
    def __init__(self, items):
        self.fields = items

    def __repr__(self):
        return "A%r" % (self.fields,)


class VecV:
    def __init__(self, items):
        self.fields = items

    def __repr__(self):
        return "Vec%r" % (self.fields,)


class Opt:
    def __init__(self, v=None, some=False):
        self.some = some
        self.fields = [v]

    def __repr__(self):
        return "Some(%r)" % (self.fields[0],) if self.some else "None"


class EnumVal:
    """fieldless enum value such as std::cmp::Ordering (disc is the value `discriminant()` / switchInt sees)"""

    def __init__(self, name, variant, disc):
        self.name, self.variant, self.disc = name, variant, disc
        self.fields = []

    def __repr__(self):
        return "%s::%s" % (self.name, self.variant)


class ResV:
    """Result<T, E>: discriminant 0 = Ok, 1 = Err; field 0 is the payload"""

    def __init__(self, ok, v):
        self.ok = ok
        self.fields = [v]

    def __repr__(self):
        return ("Ok(%r)" if self.ok else "Err(%r)") % (self.fields[0],)


class CFV:
    """ControlFlow<B, C>: discriminant 0 = Continue, 1 = Break"""

    def __init__(self, brk, v):
        self.brk = brk
        self.fields = [v]


class Unit:
    def __repr__(self):
        return "()"


UNIT = Unit()


class Ref:
    """Pointer to a place: cell + projection path (list of ints)."""
    __slots__ = ("cell", "path")

    def __init__(self, cell, path=()):
        self.cell, self.path = cell, tuple(path)

    def __repr__(self):
        return "&%r" % (self.path,)


class SliceRef:
    """&[T] / &mut [T]: a window [start, end) of an Array/VecV living at (cell, path)."""
    __slots__ = ("cell", "path", "start", "end")

    def __init__(self, cell, path, start, end):
        self.cell, self.path, self.start, self.end = cell, tuple(path), start, end

    def __len__(self):
        return self.end - self.start


def read_path(cell, path):
    v = cell.v
    for i in path:
        v = v.fields[i]
    return v


def write_path(cell, path, val):
    if not path:
        cell.v = val
        return
    v = cell.v
    for i in path[:-1]:
        v = v.fields[i]
    v.fields[path[-1]] = val


def clone_value(v):
    """Copy/move semantics: aggregates are copied structurally, references are shared."""
    if isinstance(v, Struct):
        c = Struct(v.name, [clone_value(x) for x in v.fields])
        if hasattr(v, "disc"):
            c.disc, c.enum = v.disc, getattr(v, "enum", None)
        if hasattr(v, "cenv"):
            c.cenv = v.cenv
        if hasattr(v, "cfn"):
            c.cfn = v.cfn
        return c
    if isinstance(v, Tuple):
        return Tuple([clone_value(x) for x in v.fields])
    if isinstance(v, Array):
        return Array([clone_value(x) for x in v.fields])
    if isinstance(v, VecV):
        return VecV([clone_value(x) for x in v.fields])
    if isinstance(v, Opt):
        return Opt(clone_value(v.fields[0]), v.some)
    if isinstance(v, ResV):
        return ResV(v.ok, clone_value(v.fields[0]))
    if isinstance(v, CFV):
        return CFV(v.brk, clone_value(v.fields[0]))
    if isinstance(v, IterBase):
        return v.clone()
    return v


# ------------------------------------------------------------------ iterator model
class IterBase:
    def clone(self):
        return copy.copy(self)


class SliceIter(IterBase):
    def __init__(self, sl, mut=False):
        self.sl, self.lo, self.hi, self.mut = sl, 0, len(sl), mut

    def next(self, it):
        if self.lo >= self.hi:
            return None
        i = self.lo
        self.lo += 1
        return Ref(self.sl.cell, self.sl.path + (self.sl.start + i,))

    def next_back(self, it):
        if self.lo >= self.hi:
            return None
        self.hi -= 1
        return Ref(self.sl.cell, self.sl.path + (self.sl.start + self.hi,))


class VecIntoIter(IterBase):
    def __init__(self, items):
        self.items, self.lo = items, 0

    def next(self, it):
        if self.lo >= len(self.items):
            return None
        v = self.items[self.lo]
        self.lo += 1
        return clone_value(v)

    def clone(self):
        c = VecIntoIter([clone_value(x) for x in self.items])
        c.lo = self.lo
        return c


class RevIter(IterBase):
    def __init__(self, inner):
        self.inner = inner

    def next(self, it):
        return self.inner.next_back(it)

    def next_back(self, it):
        return self.inner.next(it)

    def clone(self):
        return RevIter(self.inner.clone())


class ZipIter(IterBase):
    def __init__(self, a, b):
        self.a, self.b = a, b

    def next(self, it):
        x = self.a.next(it)
        if x is None:
            return None
        y = self.b.next(it)
        if y is None:
            return None
        return Tuple([x, y])

    def next_back(self, it):
        ra, rb = remaining_len(self.a), remaining_len(self.b)
        if ra is None and rb is None:
            raise Unsupported("Zip::next_back over iterators of unknown length")
        # std trims the longer side to the common length first (an unbounded range counts as longer)
        if ra is not None and rb is not None:
            for _ in range(ra - rb):
                self.a.next_back(it)
            for _ in range(rb - ra):
                self.b.next_back(it)
        elif ra is None or rb is None:
            raise Unsupported("Zip::next_back with an unbounded side")
        x = self.a.next_back(it)
        y = self.b.next_back(it)
        if x is None or y is None:
            return None
        return Tuple([x, y])

    def clone(self):
        return ZipIter(self.a.clone(), self.b.clone())


class MapIter(IterBase):
    def __init__(self, inner, closure):
        self.inner = inner
        self.closure = closure if isinstance(closure, Cell) else Cell(closure)

    def next(self, it):
        x = self.inner.next(it)
        if x is None:
            return None
        return it.call_closure(self.closure, [x])

    def clone(self):
        return MapIter(self.inner.clone(), Cell(clone_value(self.closure.v)))


class ClonedIter(IterBase):
    def __init__(self, inner):
        self.inner = inner

    def next(self, it):
        x = self.inner.next(it)
        if x is None:
            return None
        return clone_value(read_path(x.cell, x.path))

    def clone(self):
        return ClonedIter(self.inner.clone())


class OnceIter(IterBase):
    def __init__(self, v):
        self.v, self.done = v, False

    def next(self, it):
        if self.done:
            return None
        self.done = True
        return self.v


class ChainIter(IterBase):
    def __init__(self, a, b):
        self.a, self.b = a, b

    def next(self, it):
        if self.a is not None:
            x = self.a.next(it)
            if x is not None:
                return x
            self.a = None
        return self.b.next(it)

    def clone(self):
        return ChainIter(self.a.clone() if self.a is not None else None, self.b.clone())


def remaining_len(itr):
    """number of items left, for the exact-size iterators of the model (None if unknown)"""
    if isinstance(itr, SliceIter):
        return itr.hi - itr.lo
    if isinstance(itr, VecIntoIter):
        return len(itr.items) - itr.lo
    if isinstance(itr, ListIter):
        return len(itr.items) - itr.lo - itr.back
    if isinstance(itr, RangeIter):
        return None if itr.hi is None else max(itr.hi - itr.lo, 0)
    if isinstance(itr, (EnumerateIter, MapIter, ClonedIter, RevIter)):
        return remaining_len(itr.inner)
    if isinstance(itr, SkipIter):
        r = remaining_len(itr.inner)
        return None if r is None else max(r - itr.n, 0)
    if isinstance(itr, TakeIter):
        r = remaining_len(itr.inner)
        return None if r is None else min(r, itr.n)
    if isinstance(itr, ZipIter):
        a, b = remaining_len(itr.a), remaining_len(itr.b)
        return None if a is None or b is None else min(a, b)
    return None


class ListIter(IterBase):
    """iterator over already-built items (chunks, windows, ...), double-ended"""

    def __init__(self, items):
        self.items, self.lo, self.back = list(items), 0, 0
        self.remainder = None

    def next(self, it):
        if self.lo + self.back >= len(self.items):
            return None
        v = self.items[self.lo]
        self.lo += 1
        return v

    def next_back(self, it):
        if self.lo + self.back >= len(self.items):
            return None
        self.back += 1
        return self.items[len(self.items) - self.back]

    def clone(self):
        c = ListIter(self.items)
        c.lo, c.back, c.remainder = self.lo, self.back, self.remainder
        return c


class ScanIter(IterBase):
    """Iterator::scan(init, f): f(&mut state, item) -> Option<B>; stops at the first None"""

    def __init__(self, inner, state, closure):
        self.inner = inner
        self.state = state if isinstance(state, Cell) else Cell(state)
        self.closure = closure if isinstance(closure, Cell) else Cell(closure)
        self.done = False

    def next(self, it):
        if self.done:
            return None
        x = self.inner.next(it)
        if x is None:
            return None
        r = it.call_closure(self.closure, [Ref(self.state), x])
        if not isinstance(r, Opt):
            raise Unsupported("scan closure returned %r" % (r,))
        if not r.some:
            self.done = True
            return None
        return r.fields[0]

    def clone(self):
        c = ScanIter(self.inner.clone(), Cell(clone_value(self.state.v)), Cell(clone_value(self.closure.v)))
        c.done = self.done
        return c


class FilterIter(IterBase):
    """filter / filter_map / take_while / skip_while / inspect / map_while, by mode"""

    def __init__(self, inner, closure, mode):
        self.inner, self.mode = inner, mode
        self.closure = closure if isinstance(closure, Cell) else Cell(closure)
        self.flag = False  # take_while: finished; skip_while: started

    def next(self, it):
        while True:
            if self.mode in ("take_while", "map_while") and self.flag:
                return None
            x = self.inner.next(it)
            if x is None:
                return None
            if self.mode == "inspect":
                it.call_closure(self.closure, [Ref(Cell(x))])
                return x
            if self.mode in ("filter_map", "map_while"):
                r = it.call_closure(self.closure, [x])
                if not isinstance(r, Opt):
                    raise Unsupported("%s closure returned %r" % (self.mode, r))
                if r.some:
                    return r.fields[0]
                if self.mode == "map_while":
                    self.flag = True
                    return None
                continue
            keep = it.decide(it.call_closure(self.closure, [Ref(Cell(x))]))
            if self.mode == "filter":
                if keep:
                    return x
                continue
            if self.mode == "take_while":
                if keep:
                    return x
                self.flag = True
                return None
            if self.mode == "skip_while":
                if self.flag or not keep:
                    self.flag = True
                    return x
                continue
            raise Unsupported("iterator mode " + self.mode)

    def clone(self):
        c = FilterIter(self.inner.clone(), Cell(clone_value(self.closure.v)), self.mode)
        c.flag = self.flag
        return c


class StepByIter(IterBase):
    def __init__(self, inner, step):
        self.inner, self.step, self.first = inner, step, True

    def next(self, it):
        if self.first:
            self.first = False
            return self.inner.next(it)
        for _ in range(self.step - 1):
            if self.inner.next(it) is None:
                return None
        return self.inner.next(it)

    def clone(self):
        c = StepByIter(self.inner.clone(), self.step)
        c.first = self.first
        return c


class PeekIter(IterBase):
    def __init__(self, inner):
        self.inner, self.buf, self.has = inner, None, False

    def peek(self, it):
        if not self.has:
            self.buf, self.has = self.inner.next(it), True
        return self.buf

    def next(self, it):
        if self.has:
            self.has = False
            x, self.buf = self.buf, None
            return x
        return self.inner.next(it)

    def clone(self):
        c = PeekIter(self.inner.clone())
        c.buf, c.has = (clone_value(self.buf) if self.buf is not None else None), self.has
        return c


class FlatIter(IterBase):
    """flat_map(f) / flatten(): closure may be None (flatten)"""

    def __init__(self, inner, closure):
        self.inner = inner
        self.closure = None if closure is None else (closure if isinstance(closure, Cell) else Cell(closure))
        self.cur = None

    def next(self, it):
        while True:
            if self.cur is not None:
                x = self.cur.next(it)
                if x is not None:
                    return x
                self.cur = None
            y = self.inner.next(it)
            if y is None:
                return None
            if self.closure is not None:
                y = it.call_closure(self.closure, [y])
            if isinstance(y, Opt):
                if y.some:
                    return y.fields[0]
                continue
            self.cur = into_iter(y)

    def clone(self):
        c = FlatIter(self.inner.clone(), None if self.closure is None else Cell(clone_value(self.closure.v)))
        c.cur = None if self.cur is None else self.cur.clone()
        return c


class CycleIter(IterBase):
    def __init__(self, inner):
        self.orig, self.cur = inner.clone(), inner

    def next(self, it):
        x = self.cur.next(it)
        if x is None:
            self.cur = self.orig.clone()
            x = self.cur.next(it)
        return x

    def clone(self):
        c = CycleIter(self.orig)
        c.cur = self.cur.clone()
        return c


class FnIter(IterBase):
    """iter::from_fn(f) / iter::successors(first, f) / iter::repeat(x) / repeat_with(f)"""

    def __init__(self, kind, closure=None, state=None):
        self.kind, self.state = kind, state
        self.closure = None if closure is None else (closure if isinstance(closure, Cell) else Cell(closure))

    def next(self, it):
        if self.kind == "repeat":
            return clone_value(self.state)
        if self.kind == "repeat_with":
            return it.call_closure(self.closure, [])
        if self.kind == "from_fn":
            r = it.call_closure(self.closure, [])
            return r.fields[0] if r.some else None
        # successors: state is Option<T>
        cur = self.state
        if not cur.some:
            return None
        x = cur.fields[0]
        self.state = it.call_closure(self.closure, [Ref(Cell(x))])
        return x

    def clone(self):
        return FnIter(self.kind, None if self.closure is None else Cell(clone_value(self.closure.v)),
                      None if self.state is None else clone_value(self.state))


class TakeIter(IterBase):
    def __init__(self, inner, n):
        self.inner, self.n = inner, n

    def next(self, it):
        if self.n <= 0:
            return None
        self.n -= 1
        return self.inner.next(it)

    def clone(self):
        return TakeIter(self.inner.clone(), self.n)


class SkipIter(IterBase):
    def __init__(self, inner, n):
        self.inner, self.n = inner, n

    def next_back(self, it):
        r = remaining_len(self)
        if r is None:
            raise Unsupported("Skip::next_back over an iterator of unknown length")
        if r <= 0:
            return None
        return self.inner.next_back(it)

    def next(self, it):
        while self.n > 0:
            self.n -= 1
            if self.inner.next(it) is None:
                return None
        return self.inner.next(it)

    def clone(self):
        return SkipIter(self.inner.clone(), self.n)


class EnumerateIter(IterBase):
    def __init__(self, inner):
        self.inner, self.i = inner, 0

    def next_back(self, it):
        remaining = remaining_len(self.inner)
        if remaining is None:
            raise Unsupported("Enumerate::next_back over an iterator of unknown length")
        x = self.inner.next_back(it)
        if x is None:
            return None
        return Tuple([self.i + remaining - 1, x])

    def next(self, it):
        x = self.inner.next(it)
        if x is None:
            return None
        t = Tuple([self.i, x])
        self.i += 1
        return t

    def clone(self):
        c = EnumerateIter(self.inner.clone())
        c.i = self.i
        return c


class RangeIter(IterBase):
    """a..b / a..=b over concrete usize"""

    def __init__(self, lo, hi):
        self.lo, self.hi = lo, hi  # half-open

    def next(self, it):
        if self.hi is not None and self.lo >= self.hi:
            return None
        v = self.lo
        self.lo += 1
        return v

    def next_back(self, it):
        if self.hi is None:
            raise Unsupported("next_back of an unbounded range")
        if self.lo >= self.hi:
            return None
        self.hi -= 1
        return self.hi


def into_iter(v):
    if isinstance(v, IterBase):
        return v
    if isinstance(v, Struct) and v.name == "Range" and all(isinstance(x, int) for x in v.fields):
        return RangeIter(v.fields[0], v.fields[1])
    if isinstance(v, Struct) and v.name == "RangeInclusive" and all(isinstance(x, int) for x in v.fields[:2]):
        return RangeIter(v.fields[0], v.fields[1] + 1)
    if isinstance(v, Struct) and v.name == "RangeFrom" and isinstance(v.fields[0], int):
        return RangeIter(v.fields[0], None)  # a.. (unbounded; only ever zipped / taken)
    if isinstance(v, (VecV, Array)):
        return VecIntoIter(v.fields)
    if isinstance(v, (SliceRef,)):
        return SliceIter(v)
    if isinstance(v, Ref):
        tgt = read_path(v.cell, v.path)
        if isinstance(tgt, (Array, VecV)):
            return SliceIter(SliceRef(v.cell, v.path, 0, len(tgt.fields)))
        if isinstance(tgt, IterBase):
            return tgt  # `&mut iterator` is an iterator (by_ref, for x in &mut it)
        if isinstance(tgt, Struct):
            return CrateIter(v)
    if isinstance(v, Struct):
        return CrateIter(Ref(Cell(v)))
    raise Unsupported("into_iter of %r" % (v,))


class CrateIter(IterBase):
    """a value of a crate type that implements Iterator itself: `next` is the crate's own `<T as Iterator>::next`"""
    interp = None  # set by Interp.__init__ (one interpreter at a time per process)

    def __init__(self, ref):
        self.ref = ref

    def next(self, it):
        r = it.do_call("<Self as Iterator>::next", [self.ref])
        if not isinstance(r, Opt):
            raise Unsupported("crate Iterator::next returned %r" % (r,))
        return r.fields[0] if r.some else None

    def clone(self):
        return CrateIter(Ref(Cell(clone_value(read_path(self.ref.cell, self.ref.path)))))


# ------------------------------------------------------------------ type patterns for dispatch
WILDCARD = re.compile(r"^(T|U|I|Scalar|Self|__\w+|[A-Z][A-Z0-9]?|impl .*)$")  # generic type parameters (one or two capitals) and `impl Trait`


def strip_path(name):
    """'poly::Poly3' -> 'Poly3'; keeps generic arguments out."""
    name = name.strip()
    m = re.match(r"^([\w:]+)", name)
    base = m.group(1) if m else name
    return base.rstrip(":").split("::")[-1]


def split_top_commas(s):
    out, depth, cur = [], 0, ""
    i = 0
    while i < len(s):
        ch = s[i]
        if ch == "-" and s[i + 1:i + 2] == ">":
            cur += "->"
            i += 2
            continue
        if ch in "<([{":
            depth += 1
        elif ch in ">)]}":
            depth -= 1
        if ch == "," and depth == 0:
            out.append(cur)
            cur = ""
        else:
            cur += ch
        i += 1
    if cur.strip():
        out.append(cur)
    return out


def strip_generics(s):
    """'piecewise::Segment::<T>::f::<'_, &Vec<X>>' -> 'piecewise::Segment::f' (balanced removal of every ::<...> group)."""
    out, i, n = [], 0, len(s)
    while i < n:
        if s.startswith("::<", i):
            j = mp.find_matching(s, i + 2)
            i = j + 1
            continue
        out.append(s[i])
        i += 1
    return "".join(out)


def parse_type(s):
    """type string -> nested tuple ('ref', T) | ('name', base, [args]) | ('array', T, n) | ('slice', T) | ('tuple',[..]) | ('any',)"""
    s = s.strip()
    if s.startswith("&"):
        s2 = s[1:].strip()
        s2 = re.sub(r"^'\w+\s+", "", s2)
        if s2.startswith("mut "):
            s2 = s2[4:]
        return ("ref", parse_type(s2))
    if s.startswith("["):
        inner = s[1:mp.find_matching(s, 0)]
        parts = mp.split_top(inner, ";")
        if len(parts) == 2:
            return ("array", parse_type(parts[0]), parts[1].strip())
        return ("slice", parse_type(inner))
    if s.startswith("("):
        inner = s[1:mp.find_matching(s, 0)]
        return ("tuple", [parse_type(x) for x in mp.split_top(inner) if x])
    if s.startswith("{closure@"):
        return ("name", s[:mp.find_matching(s, 0) + 1], [])
    if s.startswith("<"):
        return ("any",)
    m = re.match(r"^([\w:]+)(?:::)?(<.*>)?$", s, re.S)
    if not m:
        return ("any",)
    base = m.group(1).split("::")[-1]
    if WILDCARD.match(base) and not m.group(2):
        return ("any",)
    args = []
    if m.group(2):
        args = [parse_type(x) for x in mp.split_top(m.group(2)[1:-1]) if x and not x.startswith("'")]
    return ("name", base, args)


def value_matches(v, pat):
    k = pat[0]
    if k == "any":
        return True
    if k == "ref":
        if isinstance(v, Ref):
            return value_matches(read_path(v.cell, v.path), pat[1])
        if isinstance(v, SliceRef):
            return pat[1][0] in ("slice", "any")
        return False
    if isinstance(v, (Ref, SliceRef)):
        return False
    if k == "name":
        base, args = pat[1], pat[2]
        if base == "f64":
            return isinstance(v, Num)
        if base in ("usize", "u64", "u32", "i32", "i64", "u8", "isize"):
            return isinstance(v, int) and not isinstance(v, bool)
        if base == "bool":
            return isinstance(v, bool) or z3.is_bool(v)
        if base == "Vec":
            return isinstance(v, VecV)
        if base == "Option":
            return isinstance(v, Opt)
        if isinstance(v, EnumVal):
            return v.name == base
        if isinstance(v, Struct) and getattr(v, "enum", None) is not None:
            return v.enum == base
        if isinstance(v, Struct):
            if v.name != base:
                return False
            # generic args are matched against the struct's fields of aggregate kind, in order
            if args:
                inner = [f for f in v.fields if isinstance(f, (Struct, VecV, Array, Tuple))]
                concrete = [a for a in args if a[0] != "any"]
                if concrete:
                    if not inner:
                        return False
                    if isinstance(inner[-1], (VecV, Array)):
                        return True
                    return value_matches(inner[-1], concrete[-1]) if len(concrete) == 1 else True
            return True
        return False
    if k == "array":
        return isinstance(v, Array)
    if k == "slice":
        return isinstance(v, (Array, VecV))
    if k == "tuple":
        return isinstance(v, Tuple) and len(v.fields) == len(pat[1]) and all(
            value_matches(x, p) for x, p in zip(v.fields, pat[1]))
    return False


def pattern_specificity(pat):
    k = pat[0]
    if k == "any":
        return 0
    if k == "ref":
        return 1 + pattern_specificity(pat[1])
    if k == "name":
        return 2 + sum(pattern_specificity(a) for a in pat[2])
    if k in ("array", "slice"):
        return 2
    if k == "tuple":
        return 1 + sum(pattern_specificity(a) for a in pat[1])
    return 0


# ------------------------------------------------------------------ the program
class Program:
    def __init__(self, mir_text, sources):
        self.funcs, self.consts = mp.parse_mir(mir_text)
        self.sources = sources
        self.by_method = {}  # last path segment -> [Function]
        self.by_name = {}
        self.closures = {}  # '{closure@src/..}' -> Function
        for f in self.funcs:
            self.by_name.setdefault(f.name, []).append(f)
            last = re.sub(r"::\{closure#\d+\}$", "", f.name)
            if f.name.endswith("}") and "{closure#" in f.name and f.params:
                m = re.search(r"(\{closure@[^}]*\})", f.params[0][1])
                if m:
                    self.closures[m.group(1)] = f
                    # macro-generated functions share the closure's source span: keep every body, resolved by the creating function
                    self.closures_all = getattr(self, "closures_all", {})
                    self.closures_all.setdefault(m.group(1), []).append(f)
                continue
            seg = f.name.split("::")[-1]
            self.by_method.setdefault(seg, []).append(f)
            f.param_pats = [parse_type(t) for (_, t) in f.params]
        self.struct_fields = self._scan_structs()
        self.enums = self._scan_enums()

    def _scan_structs(self):
        """struct name -> [field names] from the Rust sources (declaration order = MIR field index)."""
        out = {}
        for text in self.sources.values():
            for m in re.finditer(r"^(?:pub(?:\([^)]*\))?\s+)?struct (\w+)(?:<[^>]*>)?\s*(?:where[^{]*)?\{(.*?)\n\}", text, re.S | re.M):
                names = re.findall(r"^\s*(?:pub(?:\([^)]*\))?\s+)?(\w+)\s*:", m.group(2), re.M)
                out[m.group(1)] = names
        out.setdefault("RangeFrom", ["start"])
        out.setdefault("RangeTo", ["end"])
        out.setdefault("Range", ["start", "end"])
        return out

    def _scan_enums(self):
        """crate enums: name -> {variant: (discriminant, [field names] | None for tuple/unit variants)} (declaration order; explicit
        discriminants `= k` honoured)"""
        out = {}
        for text in self.sources.values():
            for m in re.finditer(r"^\s*(?:pub(?:\([^)]*\))?\s+)?enum (\w+)(?:<[^>]*>)?\s*\{(.*?)\n\s*\}", text, re.S | re.M):
                body = re.sub(r"//[^\n]*", "", m.group(2))
                body = re.sub(r"#\[[^\]]*\]", "", body)
                variants, k = {}, 0
                for part in split_top_commas(body):
                    part = part.strip()
                    if not part:
                        continue
                    vm = re.match(r"^(\w+)\s*(\{.*\}|\(.*\))?\s*(?:=\s*(-?\d+))?$", part, re.S)
                    if not vm:
                        variants = None
                        break
                    if vm.group(3) is not None:
                        k = int(vm.group(3))
                    fields = None
                    if vm.group(2) and vm.group(2).startswith("{"):
                        fields = re.findall(r"(\w+)\s*:", vm.group(2))
                    variants[vm.group(1)] = (k, fields)
                    k += 1
                if variants:
                    out[m.group(1)] = variants
        return out

    def find(self, name_suffix):
        """free function by (suffix of) its path, e.g. 'f_dx', 'spline::segment'."""
        c = [f for f in self.funcs if (f.name == name_suffix or f.name.endswith("::" + name_suffix))
             and "{closure" not in f.name]
        if len(c) != 1:
            raise Unsupported("function %r: %d candidates" % (name_suffix, len(c)))
        return c[0]

    def find_kernel(self, name, module, param_types, ret):
        """A helper by name, or -- when a refactor renamed it -- the single function of `module` with this signature
        (param_types: list of substrings of the parameter types in order; ret: substring of the return type)."""
        try:
            return self.find(name)
        except Unsupported:
            pass
        # (rustc prints trimmed paths: a function whose name is unique in the crate appears without its module)
        c = [f for f in self.funcs if "{closure" not in f.name and "<impl" not in f.name and "promoted[" not in f.name
             and len(f.params) == len(param_types) and all(t in f.params[i][1] for i, t in enumerate(param_types))
             and ret in (f.ret or "")]
        if len(c) != 1:
            raise Unsupported("kernel %r: not found by name, %d candidates by signature" % (name, len(c)))
        return c[0]

    def find_method(self, method, args, impl_hint=None):
        cands = []
        for f in self.by_method.get(method, []):
            if "<impl at" not in f.name and impl_hint is None:
                pass
            if len(f.params) != len(args):
                continue
            if all(value_matches(a, p) for a, p in zip(args, f.param_pats)):
                cands.append(f)
        if not cands:
            return None
        cands.sort(key=lambda f: -sum(pattern_specificity(p) for p in f.param_pats))
        if len(cands) > 1:
            s0 = sum(pattern_specificity(p) for p in cands[0].param_pats)
            s1 = sum(pattern_specificity(p) for p in cands[1].param_pats)
            if s0 == s1:
                raise Unsupported("ambiguous dispatch for %s: %s" % (method, [c.name for c in cands[:3]]))
        return cands[0]


class Path:
    def __init__(self):
        self.decisions = []
        self.conds = []  # z3 bools (path condition)
        self.result = None
        self.panic = None
        self.side = []
        self.deltas = []
        self.nonzero = []
        self.asserts = []  # (z3 cond that must hold, message)  -- symbolic assert terminators
        self.calls = []  # names of crate functions executed

    def cond(self):
        return z3.And(*self.conds) if self.conds else z3.BoolVal(True)


class Interp:
    MAX_STEPS = 200000

    def __init__(self, program, domain, max_paths=256, stubs=None):
        self.p = program
        self.dom = domain
        self.max_paths = max_paths
        self.functions_run = set()
        # stubs: {function-name suffix: python callable(interp, args) -> value}; every stub used is part of the claim
        self.stubs = stubs or {}
        self.stubs_used = set()
        # predicate stubs: list of (pred(function, args) -> bool, handler(interp, args) -> value)
        self.stub_preds = []

    # ---------------------------------------------------------------- exploration
    def explore_body(self, body, max_paths=None, feasible=None):
        """body: callable(interp) -> result, re-executed once per decision trace (may call several functions in sequence
        on shared state, e.g. `new` followed by several `evaluate`s).  feasible: optional callable(list of z3 bools) ->
        bool used to prune branches whose path condition is unsatisfiable (a solver call per symbolic decision)."""
        self.feasible = feasible
        try:
            return self.explore(None, None, max_paths=max_paths, body=body)
        finally:
            self.feasible = None

    def explore(self, fn, make_args, max_paths=None, body=None):
        """fn: Function; make_args: callable(dom) -> list of argument values (fresh per run).
        Returns list of Path."""
        paths = []
        work = [[]]
        limit = max_paths or self.max_paths
        while work:
            prescribed = work.pop()
            if len(paths) >= limit:
                raise PathLimit("more than %d paths" % limit)
            self.dom.reset()
            self.path = Path()
            self.prescribed = list(prescribed)
            self.pending = []
            self.steps = 0
            try:
                if body is not None:
                    self.path.result = body(self)
                else:
                    args = make_args(self.dom)
                    self.path.result = self.call_function(fn, args)
            except Panic as e:
                self.path.panic = e.msg
            self.path.side = list(self.dom.side)
            self.path.deltas = list(self.dom.deltas)
            self.path.nonzero = list(self.dom.nonzero)
            self.path.nonzero_side_index = list(getattr(self.dom, "nonzero_side_index", []))
            self.path.calls = sorted(self.functions_run)
            paths.append(self.path)
            work.extend(self.pending)
            # every queued decision trace yields at least one more path: give up as soon as the limit cannot be met instead of
            # exploring `limit` long paths first (a value-dependent branch per segment at 257 segments is 2^257 paths)
            if len(paths) + len(work) > limit:
                raise PathLimit("more than %d paths (%d explored, %d queued)" % (limit, len(paths), len(work)))
        return paths

    def decide(self, cond):
        """cond: python bool or z3 Bool.  Returns python bool; records the decision."""
        if isinstance(cond, bool):
            return cond
        cond_s = z3.simplify(cond)
        if z3.is_true(cond_s):
            return True
        if z3.is_false(cond_s):
            return False
        k = len(self.path.decisions)
        dl = getattr(self, "deadline", None)
        if dl is not None and time.time() > dl:
            raise PathLimit("time budget of the exploration exhausted after %d decisions on this path" % k)
        if k < len(self.prescribed):
            d = self.prescribed[k]
        else:
            feas = getattr(self, "feasible", None)
            if feas is not None:
                can_t = feas(self.path.conds + [cond])
                can_f = feas(self.path.conds + [z3.Not(cond)])
                if can_t and can_f:
                    d = True
                    self.pending.append(self.path.decisions + [False])
                elif can_t or not can_f:
                    d = True   # (if neither is feasible the whole path is dead; follow True, obligations are vacuous)
                else:
                    d = False
            else:
                d = True
                self.pending.append(self.path.decisions + [False])
        self.path.decisions.append(d)
        self.path.conds.append(cond if d else z3.Not(cond))
        return d

    # ---------------------------------------------------------------- calls
    def call_function(self, f, args):
        for pred, fn in self.stub_preds:
            if pred(f, args):
                self.stubs_used.add(getattr(pred, "__name__", "predicate-stub"))
                return fn(self, args)
        for key, fn in self.stubs.items():
            if f.name == key or f.name.endswith("::" + key):
                self.stubs_used.add(key)
                return fn(self, args)
        self.functions_run.add(f.name)
        frame = {}
        for (n, _), a in zip(f.params, args):
            frame[n] = Cell(a)
        if len(args) != len(f.params):
            raise Unsupported("arity mismatch calling %s" % f.name)
        # const generics: `[T; N]` in a parameter type binds N to the length of the array actually passed
        if not hasattr(self, "const_env"):
            self.const_env = [{}]
        cenv = dict(self.const_env[-1])  # closures of a const-generic function see its parameters
        ce = getattr(self, "_closure_cenv", None)
        self._closure_cenv = None
        if ce:
            cenv.update(ce)
        tf = getattr(self, "_pending_turbofish", None)
        self._pending_turbofish = None
        if tf:
            cenv.update(self._turbofish_consts(f, tf))
        for (_, ty), a in zip(f.params, args):
            for m in re.finditer(r"\[[^\[\];]+; ([A-Z][A-Z0-9_]*)\]", ty):
                v = a
                while isinstance(v, Ref):
                    v = read_path(v.cell, v.path)
                if isinstance(v, Array) and re.match(r"^&*(mut )?\[[^\[\];]+; [A-Z][A-Z0-9_]*\]$", ty.strip()):
                    cenv[m.group(1)] = len(v.fields)
        self.const_env.append(cenv)
        try:
            return self._run_body(f, frame)
        finally:
            self.const_env.pop()

    def _turbofish_consts(self, f, callee):
        """`name::<A, 3, F>` + the function's generic parameter list in the source -> {const parameter name: value}"""
        m = re.search(r"::<(.*)>\s*$", callee, re.S)
        if not m:
            return {}
        last = strip_generics(f.name).split("::")[-1]
        decls = []
        for text in self.p.sources.values():
            decls += re.findall(r"\bfn\s+%s\s*<([^()]*?)>\s*\(" % re.escape(last), text, re.S)
        if len(decls) != 1:
            return {}
        params = [x.strip() for x in split_top_commas(decls[0]) if x.strip() and not x.strip().startswith("'")]
        args = [x.strip() for x in split_top_commas(m.group(1)) if x.strip() and not x.strip().startswith("'")]
        out = {}
        if len(params) != len(args):
            return {}
        for p_, a_ in zip(params, args):
            pm = re.match(r"^const\s+(\w+)\s*:", p_)
            if pm and re.match(r"^\d+$", a_):
                out[pm.group(1)] = int(a_)
            elif pm and re.match(r"^\d+_usize$", a_):
                out[pm.group(1)] = int(a_.split("_")[0])
        return out

    def _run_body(self, f, frame):
        bb = 0
        while True:
            stmts, term = f.blocks[bb]
            for st in stmts:
                self.exec_stmt(f, frame, st)
            self.steps += 1
            if self.steps > self.MAX_STEPS:
                raise Unsupported("step limit")
            if isinstance(term, mp.Goto):
                bb = term.target
            elif isinstance(term, mp.Return):
                c = frame.get(0)
                return c.v if c is not None and c.v is not None else UNIT
            elif isinstance(term, mp.SwitchInt):
                v = self.eval_operand(f, frame, term.op)
                bb = self.switch(v, term, f)
            elif isinstance(term, mp.Assert):
                v = self.eval_operand(f, frame, term.cond)
                if isinstance(v, bool):
                    ok = (not v) if term.negate else v
                    if not ok:
                        raise Panic("assert failed: " + term.msg)
                else:
                    ok = self.decide(z3.Not(v) if term.negate else v)
                    if not ok:
                        raise Panic("assert failed: " + term.msg)
                bb = term.target
            elif isinstance(term, mp.Call):
                args2 = [self.eval_operand(f, frame, a) for a in term.args]
                res = self.do_call(term.callee, args2)
                if term.target is None:
                    raise Panic("diverging call returned: " + term.callee)
                self.assign(f, frame, term.dest, res)
                bb = term.target
            elif isinstance(term, mp.Drop):
                bb = term.target
            elif isinstance(term, mp.Unreachable):
                raise Unsupported("reached `unreachable` in %s" % f.name)
            elif isinstance(term, mp.Assign):
                # a block may end in a plain statement only if malformed
                raise Unsupported("block without terminator in %s" % f.name)
            else:
                raise Unsupported("terminator %r in %s" % (getattr(term, "text", term), f.name))

    def switch(self, v, term, f=None):
        if isinstance(v, bool):
            v = 1 if v else 0
        if isinstance(v, int):
            if v in term.cases:
                return term.cases[v]
            if v < 0:
                for width in (8, 16, 32, 64):
                    if (v + (1 << width)) in term.cases:
                        return term.cases[v + (1 << width)]
            return term.otherwise
        if z3.is_expr(v) and z3.is_int(v):
            # a symbolic discriminant (lazily decided Ordering): one two-way decision per listed case
            keys = sorted(term.cases)
            # rustc emits `otherwise: unreachable` for an exhaustive match: the last listed case is then implied
            exhaustive = False
            if f is not None and term.otherwise is not None and term.otherwise in f.blocks:
                st_, tm_ = f.blocks[term.otherwise]
                exhaustive = not st_ and isinstance(tm_, mp.Unreachable)
            for i_, k in enumerate(keys):
                ks = k - 256 if 128 <= k <= 255 else (k - (1 << 64) if k >= (1 << 63) else k)
                if exhaustive and i_ == len(keys) - 1:
                    return term.cases[k]
                if self.decide(v == ks):
                    return term.cases[k]
            return term.otherwise
        if z3.is_bool(v):
            # boolean switch: cases {0: bbF}, otherwise bbT
            d = self.decide(v)
            key = 1 if d else 0
            if key in term.cases:
                return term.cases[key]
            return term.otherwise
        raise Unsupported("switchInt on %r" % (v,))

    def call_closure(self, closure, args):
        """closure: a closure Struct, or a Cell holding one (FnMut state persists across calls through the Cell)."""
        cell = closure if isinstance(closure, Cell) else Cell(closure)
        closure = cell.v
        while isinstance(closure, Ref):  # `&F` / `&mut F` where F: Fn*: call through the reference
            cell = Cell(read_path(closure.cell, closure.path)) if closure.path else closure.cell
            closure = cell.v
        if isinstance(closure, Struct) and closure.name == "fn-item":
            return self.do_call(closure.fields[0], list(args))
        if not isinstance(closure, Struct) or closure.name not in self.p.closures:
            raise Unsupported("closure %r" % (closure,))
        f = getattr(closure, "cfn", None) or self.p.closures[closure.name]
        self._closure_cenv = getattr(closure, "cenv", None)
        # closure bodies take (&mut closure | closure, args...) ; args may be passed spread or as one tuple
        env_ty = f.params[0][1]
        env = Ref(cell) if env_ty.strip().startswith("&") else closure
        if len(f.params) - 1 == len(args):
            return self.call_function(f, [env] + args)
        if len(args) == 1 and isinstance(args[0], Tuple) and len(f.params) - 1 == len(args[0].fields):
            return self.call_function(f, [env] + list(args[0].fields))
        raise Unsupported("closure arity for %s" % f.name)

    # ---------------------------------------------------------------- statements
    def exec_stmt(self, f, frame, st):
        if isinstance(st, mp.Nop):
            return
        if isinstance(st, mp.Assign):
            val = self.eval_rvalue(f, frame, st.rv)
            self.assign(f, frame, st.place, val)
            return
        raise Unsupported("statement %r in %s" % (getattr(st, "text", st), f.name))

    def locate(self, f, frame, place):
        """place -> (cell, path)"""
        if isinstance(place, mp.Local):
            c = frame.get(place.n)
            if c is None:
                c = frame[place.n] = Cell(None)
            return c, ()
        if isinstance(place, mp.Deref):
            cell, path = self.locate(f, frame, place.base)
            v = read_path(cell, path)
            if isinstance(v, Ref):
                return v.cell, v.path
            if isinstance(v, SliceRef):
                return v, ()  # handled by Index
            raise Unsupported("deref of %r" % (v,))
        if isinstance(place, mp.Field):
            cell, path = self.locate(f, frame, place.base)
            return cell, path + (place.idx,)
        if isinstance(place, mp.Downcast):
            cell, path = self.locate(f, frame, place.base)
            return cell, path
        if isinstance(place, mp.Index):
            cell, path = self.locate(f, frame, place.base)
            idx = place.idx
            if isinstance(idx, mp.Local):
                idx = frame[idx.n].v
            if not isinstance(idx, int):
                raise Unsupported("symbolic index")
            if isinstance(cell, SliceRef):
                sl = cell
                if idx < 0:
                    idx += len(sl)  # ConstantIndex from the end
                if idx >= len(sl) or idx < 0:
                    raise Panic("index out of bounds")
                return sl.cell, sl.path + (sl.start + idx,)
            tgt = read_path(cell, path)
            if isinstance(tgt, (Array, VecV)):
                if idx < 0:
                    idx += len(tgt.fields)
                if idx >= len(tgt.fields) or idx < 0:
                    raise Panic("index out of bounds")
            return cell, path + (idx,)
        if isinstance(place, mp.Subslice):
            cell, path = self.locate(f, frame, place.base)
            if isinstance(cell, SliceRef):
                base_cell, base_path, start, n = cell.cell, cell.path, cell.start, len(cell)
            else:
                tgt = read_path(cell, path)
                if not isinstance(tgt, (Array, VecV)):
                    raise Unsupported("subslice of %r" % (tgt,))
                base_cell, base_path, start, n = cell, path, 0, len(tgt.fields)
            hi = place.hi
            end = n if hi == "" else (n + int(hi) if hi.startswith("-") else int(hi))
            if place.lo > end or end > n:
                raise Panic("subslice out of bounds")
            return SliceRef(base_cell, base_path, start + place.lo, start + end), ()
        raise Unsupported("place %r" % (place,))

    def read_place(self, f, frame, place):
        cell, path = self.locate(f, frame, place)
        if isinstance(cell, SliceRef):
            if isinstance(place, mp.Subslice) and getattr(place, "array", False):
                return Array([read_path(cell.cell, cell.path + (cell.start + i,)) for i in range(len(cell))])
            return cell
        v = read_path(cell, path)
        if v is None:
            raise Unsupported("read of uninitialised %r in %s" % (place, f.name))
        return v

    def assign(self, f, frame, place, val):
        cell, path = self.locate(f, frame, place)
        if path and read_path(cell, path[:-1]) is None:
            # field-by-field initialisation of a tuple local, e.g. (_13.0) -- create container lazily
            raise Unsupported("projection assignment into uninitialised local in %s" % f.name)
        write_path(cell, path, val)

    # ---------------------------------------------------------------- rvalues
    def eval_operand(self, f, frame, op):
        if isinstance(op, mp.Copy):
            v = self.read_place(f, frame, op.place)
            if op.move and isinstance(v, IterBase):
                return v  # a moved iterator keeps its identity (harness-side counters observe it); the source is dead
            return clone_value(v)
        if isinstance(op, mp.Const):
            if re.search(r"::promoted\[\d+\]$", op.text):
                k = re.search(r"(promoted\[\d+\])$", op.text).group(1)
                cands = self.p.by_name.get(f.name + "::" + k, [])
                if len(cands) == 1:
                    return self.call_function(cands[0], [])
                raise Unsupported("promoted constant %s of %s" % (k, f.name))
            v = self.eval_const(op.text)
            if isinstance(v, Struct) and not v.fields and v.name.startswith("{closure@"):
                env = getattr(self, "const_env", None)
                if env and env[-1]:
                    v.cenv = dict(env[-1])
            if isinstance(v, Struct) and not v.fields:
                alts = getattr(self.p, "closures_all", {}).get(v.name, [])
                if len(alts) > 1:  # capture-less closure of a macro-generated function: several bodies share the span
                    mine = [g for g in alts if g.name.startswith(f.name + "::{closure#")]
                    if len(mine) != 1:
                        raise Unsupported("closure %s: %d bodies share this source span" % (v.name, len(alts)))
                    v.cfn = mine[0]
            return v
        raise Unsupported("operand %r" % (op,))

    def eval_const(self, text):
        t = text.strip()
        if t.startswith("fn-item "):
            return Struct("fn-item", [t[len("fn-item "):]])
        if t in ("true", "false"):
            return t == "true"
        if t == "()":
            return UNIT
        m = re.match(r"^(-?\d+)_(usize|isize|u8|u16|u32|u64|i8|i16|i32|i64|u128|i128)$", t)
        if m:
            return int(m.group(1))
        m = re.match(r"^(-?[\d.]+(?:[eE][-+]?\d+)?|[+-]?inf|NaN)f64$", t)
        if m:
            return self.dom.const(float(m.group(1)))
        if t.startswith('"'):
            return t
        m = re.search(r"as (?:std::mem::)?SizedTypeProperties>::(ALIGN|SIZE|IS_ZST)$", t)
        if m:
            return {"ALIGN": 8, "SIZE": 8, "IS_ZST": False}[m.group(1)]  # only compared with 0 / used as an alignment mask
        if t == "RangeFull" or t.endswith("::RangeFull"):
            return Struct("RangeFull", [])
        if re.match(r"^(?:std::option::)?Option::<.*>::None$", t, re.S):
            return Opt(None, False)
        if t.startswith("ZeroSized:"):
            name = t[len("ZeroSized:"):].strip()
            fm = re.match(r"^(?:for<[^>]*> )?(?:unsafe )?(?:extern \"[^\"]*\" )?fn\(.*\)(?: -> .*?)? \{(.*)\}$", name, re.S)
            if fm:
                return Struct("fn-item", [fm.group(1).strip()])  # a function item passed where a closure is expected
            return Struct(name, [])
        if "f64" in t:
            fc = {"EPSILON": 2.220446049250313e-16, "INFINITY": float("inf"), "NEG_INFINITY": float("-inf"),
                  "MAX": 1.7976931348623157e308, "MIN": -1.7976931348623157e308, "MIN_POSITIVE": 2.2250738585072014e-308,
                  "NAN": float("nan")}
            nm = t.split("::")[-1]
            if nm in fc:
                return self.dom.const(fc[nm])
        last = t.split("::")[-1]
        segs_ = t.split("::")
        if len(segs_) >= 2 and segs_[-2] in self.p.enums and last in self.p.enums[segs_[-2]]:
            return EnumVal(segs_[-2], last, self.p.enums[segs_[-2]][last][0])
        if "Ordering" in t and last in ("Less", "Equal", "Greater"):
            return EnumVal("Ordering", last, {"Less": -1, "Equal": 0, "Greater": 1}[last])
        if last in self.p.consts:
            return self.eval_const(self.p.consts[last])
        # const generic parameter of the running function, bound from the array lengths of its arguments / its turbofish
        env = getattr(self, "const_env", None)
        if env and re.match(r"^[A-Z][A-Z0-9_]*$", t) and t in env[-1]:
            return env[-1][t]
        # const / static item whose initialiser has a body (e.g. a table built by a const fn): run it (once)
        for key in (t, last):
            for f_ in self.p.by_name.get(key, []):
                if getattr(f_, "is_const_item", False):
                    cache = self.__dict__.setdefault("_const_item_cache", {})
                    if f_.name not in cache:
                        cache[f_.name] = self.call_function(f_, [])
                    return clone_value(cache[f_.name])
        cands = [f_ for f_ in self.p.funcs if getattr(f_, "is_const_item", False) and f_.name.split("::")[-1] == last]
        if len(cands) == 1:
            cache = self.__dict__.setdefault("_const_item_cache", {})
            if cands[0].name not in cache:
                cache[cands[0].name] = self.call_function(cands[0], [])
            return clone_value(cache[cands[0].name])
        raise Unsupported("constant %r" % t)

    def eval_rvalue(self, f, frame, rv):
        if isinstance(rv, (mp.Copy, mp.Const)):
            return self.eval_operand(f, frame, rv)
        if isinstance(rv, mp.BinOp):
            a = self.eval_operand(f, frame, rv.a)
            b = self.eval_operand(f, frame, rv.b)
            return self.binop(rv.op, a, b)
        if isinstance(rv, mp.UnOp):
            a = self.eval_operand(f, frame, rv.a)
            if rv.op == "Neg":
                if isinstance(a, Num):
                    return self.dom.neg(a)
                if isinstance(a, int):
                    return -a
            if rv.op == "Not":
                if isinstance(a, bool):
                    return not a
                if z3.is_bool(a):
                    return z3.Not(a)
            if rv.op == "PtrMetadata":
                if isinstance(a, SliceRef):
                    return len(a)
            raise Unsupported("unop %s on %r" % (rv.op, a))
        if isinstance(rv, mp.RefOf):
            cell, path = self.locate(f, frame, rv.place)
            if isinstance(cell, SliceRef):
                return cell
            return Ref(cell, path)
        if isinstance(rv, mp.Aggregate):
            ops = [self.eval_operand(f, frame, o) for o in rv.ops]
            if rv.kind == "array":
                return Array(ops)
            if rv.kind == "tuple":
                return Tuple(ops) if ops else UNIT
            if rv.kind == "closure":
                cl = Struct(rv.name, ops)
                alts = getattr(self.p, "closures_all", {}).get(rv.name, [])
                if len(alts) > 1:
                    mine = [g for g in alts if g.name.startswith(f.name + "::{closure#")]
                    if len(mine) != 1:
                        raise Unsupported("closure %s: %d bodies share this source span, %d belong to %s" % (rv.name, len(alts), len(mine), f.name))
                    cl.cfn = mine[0]
                env = getattr(self, "const_env", None)
                if env and env[-1]:
                    cl.cenv = dict(env[-1])  # a closure of a const-generic function may run after that function returned
                return cl
            if rv.kind in ("struct", "tstruct", "unit"):
                full = rv.name
                try:
                    base = strip_generics(full).rstrip(":").split("::")[-1]
                except Exception:
                    base = strip_path(full)
                segs_ = strip_generics(full).rstrip(":").split("::")
                if len(segs_) >= 2 and segs_[-2] in self.p.enums and base in self.p.enums[segs_[-2]]:
                    disc, fnames = self.p.enums[segs_[-2]][base]
                    if rv.kind == "struct" and fnames and sorted(fnames) == sorted(rv.field_names or []):
                        byname = dict(zip(rv.field_names, ops))
                        ops = [byname[n] for n in fnames]
                    if not ops:
                        return EnumVal(segs_[-2], base, disc)
                    ev = Struct(base, ops)
                    ev.disc = disc
                    ev.enum = segs_[-2]
                    return ev
                if "Option" in full and full.rstrip().endswith("None"):
                    return Opt(None, False)
                if "Result" in full and base in ("Ok", "Err") and len(ops) <= 1:
                    return ResV(base == "Ok", ops[0] if ops else UNIT)
                if base in ("Less", "Equal", "Greater") and not ops and ("Ordering" in full or "::" not in full.strip()):
                    return EnumVal("Ordering", base, {"Less": -1, "Equal": 0, "Greater": 1}[base])
                if "Option" in full and base == "Some":
                    return Opt(ops[0], True)
                if rv.kind == "struct" and base in self.p.struct_fields:
                    order = self.p.struct_fields[base]
                    if sorted(order) == sorted(rv.field_names):
                        byname = dict(zip(rv.field_names, ops))
                        ops = [byname[n] for n in order]
                    else:
                        raise Unsupported("struct fields of %s: %r vs %r" % (base, order, rv.field_names))
                elif rv.kind == "struct":
                    raise Unsupported("unknown struct %s" % full)
                return Struct(base, ops)
        if isinstance(rv, mp.Cast):
            v = self.eval_operand(f, frame, rv.op)
            if "Unsize" in rv.kind:
                if isinstance(v, Ref):
                    tgt = read_path(v.cell, v.path)
                    if isinstance(tgt, (Array, VecV)):
                        return SliceRef(v.cell, v.path, 0, len(tgt.fields))
                return v
            if rv.kind.startswith("IntToInt") and isinstance(v, int):
                return v
            if rv.kind.startswith(("PtrToPtr", "Subtype")) or "MutToConstPointer" in rv.kind or rv.kind.startswith("PointerCoercion"):
                return v
            if rv.kind.startswith("Transmute"):
                ty = (rv.ty or "").strip()
                if isinstance(v, Struct) and v.name in ("NonNull", "Unique") and len(v.fields) == 1:
                    return v.fields[0] if v.name == "NonNull" else v.fields[0].fields[0]
                if isinstance(v, (Ref, SliceRef)) and ty == "usize":
                    return 0x10000  # an address: non-null and aligned for every type; only null / alignment checks read it
                if isinstance(v, (Ref, SliceRef)) and ty.startswith("*"):
                    return v
                raise Unsupported("cast Transmute of %s to %s" % (type(v).__name__, ty))
            if rv.kind.startswith("IntToFloat") and isinstance(v, int) and not isinstance(v, bool):
                return self.dom.const(float(v))  # Python's int -> float is the correctly rounded (RNE) conversion, like `as f64`
            if rv.kind.startswith("FloatToFloat") and "f64" in (rv.ty or ""):
                return v
            raise Unsupported("cast %s" % rv.kind)
        if isinstance(rv, mp.Discriminant):
            v = self.read_place(f, frame, rv.place)
            if isinstance(v, Opt):
                return 1 if v.some else 0
            if isinstance(v, EnumVal):
                return v.disc
            if isinstance(v, ResV):
                return 0 if v.ok else 1
            if isinstance(v, CFV):
                return 1 if v.brk else 0
            if isinstance(v, Struct) and hasattr(v, "disc"):
                return v.disc
            raise Unsupported("discriminant of %r" % (v,))
        if isinstance(rv, mp.Repeat):
            v = self.eval_operand(f, frame, rv.op)
            cnt = rv.count.replace("const ", "").strip()
            m = re.match(r"^(\d+)", cnt)
            if m:
                k = int(m.group(1))
            elif getattr(self, "const_env", None) and cnt in self.const_env[-1]:
                k = self.const_env[-1][cnt]
            else:
                raise Unsupported("repeat count " + cnt)
            return Array([clone_value(v) for _ in range(k)])
        if isinstance(rv, mp.Unsupported):
            raise Unsupported("rvalue: " + rv.text[:120])
        raise Unsupported("rvalue %r" % (rv,))

    def binop(self, op, a, b):
        a = self.auto_deref_num(a)
        b = self.auto_deref_num(b)
        if ((z3.is_expr(a) and z3.is_int(a)) or (z3.is_expr(b) and z3.is_int(b))) and op in ("Eq", "Ne", "Lt", "Le", "Gt", "Ge"):
            def sg(x):  # i8 discriminants are printed unsigned in some positions
                return x - 256 if isinstance(x, int) and 128 <= x <= 255 else x
            a2, b2 = sg(a), sg(b)
            return {"Eq": a2 == b2, "Ne": a2 != b2, "Lt": a2 < b2, "Le": a2 <= b2, "Gt": a2 > b2, "Ge": a2 >= b2}[op]
        if isinstance(a, Num) and isinstance(b, Num):
            if op == "Add":
                return self.dom.add(a, b)
            if op == "Sub":
                return self.dom.sub(a, b)
            if op == "Mul":
                return self.dom.mul(a, b)
            if op == "Div":
                return self.dom.div(a, b)
            if op in ("Lt", "Le", "Gt", "Ge", "Eq", "Ne"):
                return self.dom.cmp(op, a, b)
        if isinstance(a, int) and isinstance(b, int) and not isinstance(a, bool):
            if op in ("Add", "AddUnchecked"):
                return a + b
            if op in ("Sub", "SubUnchecked"):
                return a - b
            if op in ("Mul", "MulUnchecked"):
                return a * b
            if op == "Div":
                if b == 0:
                    raise Panic("attempt to divide by zero")
                return int(a / b) if (a < 0) != (b < 0) and a % b else a // b
            if op == "Rem":
                if b == 0:
                    raise Panic("attempt to calculate the remainder with a divisor of zero")
                return a - b * (int(a / b) if (a < 0) != (b < 0) and a % b else a // b)
            if op == "Shl":
                return a << b
            if op == "Shr":
                return a >> b
            if op == "BitAnd":
                return a & b
            if op == "BitOr":
                return a | b
            if op == "BitXor":
                return a ^ b
            if op in ("Lt", "Le", "Gt", "Ge", "Eq", "Ne"):
                return {"Lt": a < b, "Le": a <= b, "Gt": a > b, "Ge": a >= b, "Eq": a == b, "Ne": a != b}[op]
            if op == "AddWithOverflow":
                return Tuple([a + b, (a + b) >= 2 ** 64])
            if op == "SubWithOverflow":
                return Tuple([a - b, (a - b) < 0])
            if op == "MulWithOverflow":
                return Tuple([a * b, (a * b) >= 2 ** 64])
        if isinstance(a, bool) and isinstance(b, bool):
            if op == "BitAnd":
                return a and b
            if op == "BitOr":
                return a or b
            if op == "Eq":
                return a == b
            if op == "Ne":
                return a != b
        if (z3.is_bool(a) or isinstance(a, bool)) and (z3.is_bool(b) or isinstance(b, bool)):
            za = z3.BoolVal(a) if isinstance(a, bool) else a
            zb = z3.BoolVal(b) if isinstance(b, bool) else b
            if op == "BitAnd":
                return z3.And(za, zb)
            if op == "BitOr":
                return z3.Or(za, zb)
        raise Unsupported("binop %s on %r, %r" % (op, a, b))

    def auto_deref_num(self, v):
        while isinstance(v, Ref):
            v = read_path(v.cell, v.path)
        return v

    # ---------------------------------------------------------------- call dispatch
    def do_call(self, callee, args):
        import builtins_model
        r = builtins_model.try_builtin(self, callee, args)
        if r is not builtins_model.NOT_BUILTIN:
            return r
        # trait method or inherent method: dispatch on the run-time shape of the arguments
        m = re.match(r"^<(.*) as (.*)>::(\w+)(?:::<.*>)?$", callee, re.S)
        if m:
            method = m.group(3)
            # generic scalar parameter instantiated with f64 (e.g. `<Scalar as Mul<f64>>::mul`)
            if method in ("add", "sub", "mul", "div", "neg") and args:
                dn = [self.auto_deref_num(a) for a in args]
                if all(isinstance(a, Num) for a in dn):
                    if method == "neg":
                        return self.dom.neg(dn[0])
                    return self.binop(method.capitalize(), dn[0], dn[1])
            if method in ("add_assign", "sub_assign", "mul_assign", "div_assign") and len(args) == 2 \
                    and isinstance(args[0], Ref) and isinstance(read_path(args[0].cell, args[0].path), Num) \
                    and isinstance(self.auto_deref_num(args[1]), Num):
                cur = read_path(args[0].cell, args[0].path)
                write_path(args[0].cell, args[0].path,
                           self.binop(method.split("_")[0].capitalize(), cur, self.auto_deref_num(args[1])))
                return UNIT
            try:
                f = self.p.find_method(method, args)
            except Unsupported:
                f = None
                if not args:
                    # `<X as Default>::default()` and the like: pick the impl by the Self type named in the callee
                    self_ty = strip_path(strip_generics(m.group(1)))
                    cands = [g for g in self.p.by_method.get(method, []) if not g.params and strip_path(strip_generics(g.ret or "")) == self_ty]
                    if len(cands) == 1:
                        f = cands[0]
                if f is None:
                    raise
            if f is None:
                raise Unsupported("no crate impl for %s with args %r" % (callee[:120], [type(a).__name__ for a in args]))
            return self.call_function(f, args)
        # free function / inherent associated function of the crate
        self._pending_turbofish = callee
        name = strip_generics(callee)
        seg = name.split("::")[-1]
        cands = [f for f in self.p.by_method.get(seg, []) if len(f.params) == len(args)]
        exact = [f for f in cands if f.name == name or f.name.endswith("::" + name)]
        if len(exact) == 1:
            return self.call_function(exact[0], args)
        f = self.p.find_method(seg, args)
        if f is not None:
            return self.call_function(f, args)
        raise Unsupported("call %s" % callee[:160])
