"""borsh round trip of the crate's derived impls, executed from their MIR (feature `borsh`).

The derive macros expand inside this crate, so `<Piecewise<T> as BorshSerialize>::serialize` etc. are ordinary crate
functions in the MIR dump.  They are executed symbolically on values whose numbers are symbolic binary64 terms; the
dependency's own impls are replaced by their documented wire contract (borsh specification):

    f64            8 bytes little endian; NaN is refused in both directions
    [f64; N]       the N elements in order
    Vec<X>         u32 length, then the elements in order

A *tape* of tokens (number terms and lengths) stands for the byte stream.  What is decided per type and size: serialize
succeeds on every non-NaN content, deserialize of the written tape succeeds, consumes the tape exactly, and returns a
value of the same shape whose every number is the same term as the one written (so: same bits).  A field written but
not read, read in another order, read twice, or transformed on the way is a counterexample.
"""
import re

import z3

import api
from domains import FPDomain, Num
from interp import Array, Cell, Interp, Panic, Ref, ResV, Struct, VecV, Unsupported, UNIT, read_path


class Tape:
    def __init__(self):
        self.tokens = []
        self.pos = 0
        self.fields = []  # opaque to the interpreter


def rust_type(tag):
    m = re.match(r"^W(\d+):(.*)$", tag)
    if m:
        return "Piecewise<%s>" % rust_type(m.group(2))
    if tag.startswith("S"):
        return "Segment<%s>" % rust_type(tag[1:])
    if tag == "ILP4":
        return "IntOfLogPoly4"
    if tag == "K":
        return "Knot"
    m = re.match(r"^(P|LP|IL)(\d+)$", tag)
    kind, k = m.group(1), m.group(2)
    return {"P": "Poly%s", "LP": "Log<Poly%s>", "IL": "IntOfLog<Poly%s>"}[kind] % k


def split_generic(t):
    """'a::b::Name<X, Y<Z>>' -> ('Name', ['X', 'Y<Z>'])"""
    t = t.strip()
    m = re.match(r"^([\w:]+?)(?:<(.*)>)?$", t, re.S)
    if not m:
        raise Unsupported("type " + t)
    name = m.group(1).split("::")[-1]
    args = []
    if m.group(2) is not None:
        depth, cur = 0, ""
        for ch in m.group(2):
            if ch in "<[(":
                depth += 1
            elif ch in ">])":
                depth -= 1
            if ch == "," and depth == 0:
                args.append(cur.strip())
                cur = ""
            else:
                cur += ch
        if cur.strip():
            args.append(cur.strip())
    return name, args


class Borsh:
    def __init__(self, e, dom):
        self.e = e
        self.dom = dom
        self.it = Interp(e.program, dom, max_paths=64)
        self.env = [{}]
        self.events = []
        self._orig = self.it.do_call
        self.it.do_call = self.do_call

    # ------------------------------------------------------------------ crate impl lookup
    def ser_fn(self, struct_name):
        c = [f for f in self.e.program.by_method.get("serialize", [])
             if "borsh::io::Error" in (f.ret or "") and len(f.params) == 2
             and re.search(r"(^|[\s&:])%s(<.*>)?$" % re.escape(struct_name), f.params[0][1].strip())]
        if len(c) != 1:
            raise Unsupported("BorshSerialize impl for %s: %d candidates" % (struct_name, len(c)))
        return c[0]

    def de_fn(self, struct_name):
        c = []
        for f in self.e.program.by_method.get("deserialize_reader", []):
            m = re.match(r"^(?:std::result::)?Result<(.*), borsh::io::Error>$", (f.ret or "").strip(), re.S)
            if m and split_generic(m.group(1))[0] == struct_name:
                c.append((f, split_generic(m.group(1))[1]))
        if len(c) != 1:
            raise Unsupported("BorshDeserialize impl for %s: %d candidates" % (struct_name, len(c)))
        return c[0]

    # ------------------------------------------------------------------ the dependency's contract
    def write(self, val, writer):
        tape = read_path(writer.cell, writer.path) if isinstance(writer, Ref) else writer
        while isinstance(tape, Ref):
            tape = read_path(tape.cell, tape.path)
        if isinstance(val, Num):
            if self.it.decide(z3.fpIsNaN(val.t)):
                return ResV(False, Struct("io::Error", []))
            tape.tokens.append(("f64", val))
            return ResV(True, UNIT)
        if isinstance(val, Array):
            for x in val.fields:
                r = self.write(x, writer)
                if not r.ok:
                    return r
            return ResV(True, UNIT)
        if isinstance(val, VecV):
            tape.tokens.append(("len", len(val.fields)))
            for x in val.fields:
                r = self.write(x, writer)
                if not r.ok:
                    return r
            return ResV(True, UNIT)
        if isinstance(val, Struct):
            f = self.ser_fn(val.name)
            return self.it.call_function(f, [Ref(Cell(val)), writer])
        raise Unsupported("borsh write of %r" % (val,))

    def resolve(self, t):
        t = t.strip()
        env = self.env[-1]
        if t in env:
            return env[t]
        # substitute generic parameters that occur inside
        for k, v in env.items():
            t = re.sub(r"\b%s\b" % re.escape(k), v, t)
        return t

    def read(self, t, reader):
        t = self.resolve(t)
        tape = reader
        while isinstance(tape, Ref):
            tape = read_path(tape.cell, tape.path)

        def take(kind):
            if tape.pos >= len(tape.tokens):
                return None
            k, v = tape.tokens[tape.pos]
            if k != kind:
                self.events.append("framing: expected %s at token %d, found %s" % (kind, tape.pos, k))
                return None
            tape.pos += 1
            return v
        if t == "f64":
            v = take("f64")
            if v is None:
                return ResV(False, Struct("io::Error", []))
            if self.it.decide(z3.fpIsNaN(v.t)):
                return ResV(False, Struct("io::Error", []))
            return ResV(True, v)
        m = re.match(r"^\[f64; (\d+)\]$", t)
        if m:
            out = []
            for _ in range(int(m.group(1))):
                r = self.read("f64", reader)
                if not r.ok:
                    return r
                out.append(r.fields[0])
            return ResV(True, Array(out))
        m = re.match(r"^(?:std::vec::|alloc::vec::)?Vec<(.*)>$", t, re.S)
        if m:
            n = take("len")
            if n is None:
                return ResV(False, Struct("io::Error", []))
            out = []
            for _ in range(n):
                r = self.read(m.group(1), reader)
                if not r.ok:
                    return r
                out.append(r.fields[0])
            return ResV(True, VecV(out))
        name, args = split_generic(t)
        f, params = self.de_fn(name)
        if len(params) != len(args):
            raise Unsupported("generic arity of %s" % t)
        self.env.append(dict(zip(params, args)))
        try:
            return self.it.call_function(f, [reader])
        finally:
            self.env.pop()

    def do_call(self, callee, args):
        m = re.match(r"^<(.*) as (?:borsh::)?BorshSerialize>::serialize(?:::<.*>)?$", callee, re.S)
        if m and len(args) == 2:
            v = args[0]
            while isinstance(v, Ref):
                v = read_path(v.cell, v.path)
            return self.write(v, args[1])
        m = re.match(r"^<(.*) as (?:borsh::)?BorshDeserialize>::deserialize_reader(?:::<.*>)?$", callee, re.S)
        if m and len(args) == 1:
            return self.read(m.group(1), args[0])
        return self._orig(callee, args)


def shape(v):
    if isinstance(v, Num):
        return "f"
    if isinstance(v, Struct):
        return "%s(%s)" % (v.name, ",".join(shape(x) for x in v.fields))
    if isinstance(v, Array):
        return "[%s]" % ",".join(shape(x) for x in v.fields)
    if isinstance(v, VecV):
        return "vec[%s]" % ",".join(shape(x) for x in v.fields)
    return type(v).__name__


def flat_nums(v):
    if isinstance(v, Num):
        return [v]
    out = []
    for x in getattr(v, "fields", []):
        out.extend(flat_nums(x))
    return out


def make(tag, dom, prefix="v"):
    if tag == "K":
        return Struct("Knot", [dom.sym(prefix + "0"), dom.sym(prefix + "1")]), 2
    n = api.type_len(tag)
    nums = [dom.sym("%s%d" % (prefix, i)) for i in range(n)]
    return api.make_value(tag, nums), n


def roundtrip(e, tag, allow_nan=False):
    """-> list of dict(path condition, outcome) for the serialize-then-deserialize run of one type tag"""
    from ctrl import solver_feasible
    dom = FPDomain()
    b = Borsh(e, dom)
    val0, n = make(tag, dom)
    nums0 = flat_nums(val0)
    assum = [] if allow_nan else [z3.Not(z3.fpIsNaN(x.t)) for x in nums0]
    out = []

    def body(itp):
        b.env = [{}]
        b.events = []
        val, _ = make(tag, dom)
        tape = Tape()
        w = Ref(Cell(tape))
        r = b.write(val, w)
        rec = {"ser_ok": r.ok, "written": len(tape.tokens), "value": val}
        if r.ok:
            tape.pos = 0
            d = b.read(rust_type(tag), Ref(Cell(tape)))
            rec["de_ok"] = d.ok
            rec["consumed"] = tape.pos
            rec["back"] = d.fields[0] if d.ok else None
        rec["events"] = list(b.events)
        return rec
    paths = b.it.explore_body(body, feasible=solver_feasible(assum))
    e.rep.functions.update(b.it.functions_run)
    return paths, assum, nums0
