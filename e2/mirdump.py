"""Regenerate the MIR dump of /repo's current working tree (nightly rustc, -Zunpretty=mir).

The working tree is copied (sources only) into /verif/build/mir_src so that cargo never
writes into /repo; the dependency build is kept in /verif/build/mir_target between runs,
the crate itself is recompiled on every call.
"""
import os
import shutil
import subprocess
import sys
import time

sys.path.insert(0, os.path.join(os.path.dirname(os.path.dirname(os.path.abspath(__file__))), "lib"))
from common import BUILD, REPO, log  # noqa: E402

SRC = os.path.join(BUILD, "mir_src")
TARGET = os.path.join(BUILD, "mir_target")


def dump(features=()):
    """Returns (mir_text, {relative source path: text}).  features: cargo features of /repo to enable (e.g. ("borsh",))."""
    t0 = time.time()
    os.makedirs(BUILD, exist_ok=True)
    SRC = os.path.join(BUILD, "mir_src" + "".join("_" + f for f in features))
    TARGET = os.path.join(BUILD, "mir_target" + "".join("_" + f for f in features))
    shutil.rmtree(SRC, ignore_errors=True)
    os.makedirs(SRC)
    for name in ("Cargo.toml", "Cargo.lock"):
        p = os.path.join(REPO, name)
        if os.path.exists(p):
            shutil.copy(p, os.path.join(SRC, name))
    shutil.copytree(os.path.join(REPO, "src"), os.path.join(SRC, "src"))
    # benches are declared in Cargo.toml; cargo wants the files to exist
    if os.path.isdir(os.path.join(REPO, "benches")):
        shutil.copytree(os.path.join(REPO, "benches"), os.path.join(SRC, "benches"))
    env = dict(os.environ)
    env["CARGO_NET_OFFLINE"] = "true"
    env["CARGO_TARGET_DIR"] = TARGET
    env.pop("RUSTFLAGS", None)
    cmd = ["cargo", "+nightly", "rustc", "--offline", "--lib"]
    if features:
        cmd += ["--features", ",".join(features)]
    cmd += ["--", "-Zunpretty=mir", "-C", "overflow-checks=on"]
    r = subprocess.run(cmd, cwd=SRC, env=env, stdout=subprocess.PIPE, stderr=subprocess.PIPE, text=True)
    if r.returncode != 0 or "fn " not in r.stdout:
        raise RuntimeError("MIR dump failed: " + r.stderr[-3000:])
    sources = {}
    for root, _, files in os.walk(os.path.join(SRC, "src")):
        for f in files:
            if f.endswith(".rs"):
                p = os.path.join(root, f)
                with open(p) as fh:
                    sources[os.path.relpath(p, SRC)] = fh.read()
    shutil.rmtree(SRC, ignore_errors=True)
    log("[e2] MIR dump%s: %d lines in %.1fs" % (" (features %s)" % ",".join(features) if features else "", r.stdout.count("\n"), time.time() - t0))
    return r.stdout, sources


if __name__ == "__main__":
    text, _ = dump()
    sys.stdout.write(text)
