"""Parser for rustc's `-Zunpretty=mir` text (the subset the crate's kernels and glue use).

Anything the parser does not understand becomes an `Unsupported` node carrying the source
text; the interpreter raises on reaching it, which turns the obligation into 'not encoded'
(never into a pass).
"""
import re

BINOPS = {"Add", "Sub", "Mul", "Div", "Rem", "Lt", "Le", "Gt", "Ge", "Eq", "Ne", "BitAnd", "BitOr",
          "BitXor", "Shl", "Shr", "AddWithOverflow", "SubWithOverflow", "MulWithOverflow", "Offset",
          "Cmp", "AddUnchecked", "SubUnchecked", "MulUnchecked"}
UNOPS = {"Neg", "Not", "PtrMetadata"}

OPEN = "([{<"
CLOSE = ")]}>"
MATCH = {")": "(", "]": "[", "}": "{", ">": "<"}


class ParseError(Exception):
    pass


def split_top(s, sep=","):
    """Split s at top-level separators (brackets balanced, `->` and string literals skipped)."""
    out, depth, cur, i, n = [], 0, [], 0, len(s)
    while i < n:
        c = s[i]
        if c == '"':
            j = i + 1
            while j < n and s[j] != '"':
                if s[j] == "\\":
                    j += 1
                j += 1
            cur.append(s[i:j + 1])
            i = j + 1
            continue
        if c == "-" and i + 1 < n and s[i + 1] == ">":
            cur.append("->")
            i += 2
            continue
        if c == "=" and i + 1 < n and s[i + 1] == ">":
            cur.append("=>")
            i += 2
            continue
        if c in OPEN:
            depth += 1
        elif c in CLOSE:
            depth -= 1
        if c == sep and depth == 0:
            out.append("".join(cur).strip())
            cur = []
        else:
            cur.append(c)
        i += 1
    last = "".join(cur).strip()
    if last or out:
        out.append(last)
    return out


def find_matching(s, i):
    """s[i] is an opening bracket; return index of its match."""
    depth, n = 0, len(s)
    j = i
    while j < n:
        c = s[j]
        if c == '"':
            j += 1
            while j < n and s[j] != '"':
                if s[j] == "\\":
                    j += 1
                j += 1
        elif c == "-" and j + 1 < n and s[j + 1] == ">":
            j += 1
        elif c == "=" and j + 1 < n and s[j + 1] == ">":
            j += 1
        elif c in OPEN:
            depth += 1
        elif c in CLOSE:
            depth -= 1
            if depth == 0:
                return j
        j += 1
    raise ParseError("unbalanced: " + s[i:i + 80])


# ---------------------------------------------------------------- AST
class Local:
    def __init__(self, n):
        self.n = n

    def __repr__(self):
        return "_%d" % self.n


class Deref:
    def __init__(self, base):
        self.base = base

    def __repr__(self):
        return "(*%r)" % self.base


class Field:
    def __init__(self, base, idx, ty):
        self.base, self.idx, self.ty = base, idx, ty

    def __repr__(self):
        return "(%r.%d)" % (self.base, self.idx)


class Index:
    def __init__(self, base, idx):
        self.base, self.idx = base, idx  # idx: Local or int

    def __repr__(self):
        return "%r[%r]" % (self.base, self.idx)


class Downcast:
    def __init__(self, base, variant):
        self.base, self.variant = base, variant

    def __repr__(self):
        return "(%r as %s)" % (self.base, self.variant)


class Copy:
    def __init__(self, place, move=False):
        self.place, self.move = place, move

    def __repr__(self):
        return ("move " if self.move else "copy ") + repr(self.place)


class Const:
    def __init__(self, text):
        self.text = text

    def __repr__(self):
        return "const " + self.text


class BinOp:
    def __init__(self, op, a, b):
        self.op, self.a, self.b = op, a, b


class UnOp:
    def __init__(self, op, a):
        self.op, self.a = op, a


class Subslice:
    def __init__(self, base, lo, hi):
        self.base, self.lo, self.hi = base, lo, hi  # hi: '' (to the end), 'k' (absolute, arrays) or '-k' (from the end)


class RefOf:
    def __init__(self, place, mut):
        self.place, self.mut = place, mut


class Discriminant:
    def __init__(self, place):
        self.place = place


class Aggregate:
    """kind: 'array' | 'tuple' | 'struct' (named fields) | 'tstruct' (positional) | 'closure' | 'unit'"""

    def __init__(self, kind, name, ops, field_names=None):
        self.kind, self.name, self.ops, self.field_names = kind, name, ops, field_names


class Repeat:
    def __init__(self, op, count):
        self.op, self.count = op, count


class Cast:
    def __init__(self, op, ty, kind):
        self.op, self.ty, self.kind = op, ty, kind


class Unsupported:
    def __init__(self, text):
        self.text = text


class Assign:
    def __init__(self, place, rv, text):
        self.place, self.rv, self.text = place, rv, text


class Nop:
    pass


class Goto:
    def __init__(self, target):
        self.target = target


class Return:
    pass


class Unreachable:
    pass


class Resume:
    pass


class SwitchInt:
    def __init__(self, op, cases, otherwise):
        self.op, self.cases, self.otherwise = op, cases, otherwise


class Assert:
    def __init__(self, cond, negate, msg, target):
        self.cond, self.negate, self.msg, self.target = cond, negate, msg, target


class Call:
    def __init__(self, dest, callee, args, target, text):
        self.dest, self.callee, self.args, self.target, self.text = dest, callee, args, target, text


class Drop:
    def __init__(self, place, target):
        self.place, self.target = place, target


class Function:
    def __init__(self, name, header):
        self.name = name
        self.header = header
        self.params = []  # [(n, type_str)]
        self.ret = None
        self.locals = {}  # n -> type string
        self.blocks = {}  # n -> (stmts, terminator)
        self.src_span = None  # ('src/poly.rs', line) for impl methods


# ---------------------------------------------------------------- places / operands
def parse_place(s):
    s = s.strip()
    p, rest = _place(s)
    if rest.strip():
        raise ParseError("trailing text in place: %r" % s)
    return p


def _place(s):
    s = s.lstrip()
    if s.startswith("_"):
        m = re.match(r"_(\d+)", s)
        if not m:
            raise ParseError("bad local: " + s[:40])
        p = Local(int(m.group(1)))
        rest = s[m.end():]
    elif s.startswith("("):
        end = find_matching(s, 0)
        inner = s[1:end]
        rest = s[end + 1:]
        if inner.startswith("*"):
            p = Deref(parse_place(inner[1:]))
        else:
            base, r2 = _place(inner)
            r2s = r2.lstrip()
            if r2s.startswith("."):
                m = re.match(r"\.(\d+)\s*:\s*(.*)$", r2s, re.S)
                if not m:
                    raise ParseError("bad field projection: " + inner[:80])
                p = Field(base, int(m.group(1)), m.group(2).strip())
            elif r2s.startswith("as "):
                p = Downcast(base, r2s[3:].strip())
            elif not r2s:
                p = base
            else:
                raise ParseError("bad parenthesised place: " + inner[:80])
    else:
        raise ParseError("bad place: " + s[:60])
    # suffixes
    while True:
        r = rest.lstrip()
        if r.startswith("["):
            end = find_matching(r, 0)
            inner = r[1:end].strip()
            m = re.match(r"_(\d+)$", inner)
            if m:
                p = Index(p, Local(int(m.group(1))))
            else:
                m = re.match(r"(-?\d+) of (\d+)$", inner)
                m2 = re.match(r"(\d+):(-?\d*)$", inner) or re.match(r"(\d+)\.\.(\d+)$", inner)
                if m:
                    # ConstantIndex: `[k of min_len]` from the front, `[-k of min_len]` from the end (slice patterns)
                    p = Index(p, int(m.group(1)))
                elif m2:
                    # Subslice `[from:to]` / `[from:-to]` (rest patterns on slices), `[from..to]` (on arrays: a by-value sub-array)
                    p = Subslice(p, int(m2.group(1)), m2.group(2))
                    p.array = ".." in inner
                else:
                    raise ParseError("bad index: " + inner)
            rest = r[end + 1:]
        else:
            break
    return p, rest


def parse_operand(s):
    s = s.strip()
    if s.startswith("no_retag "):
        s = s[len("no_retag "):].strip()
    if s.startswith("copy "):
        return Copy(parse_place(s[5:]))
    if s.startswith("move "):
        return Copy(parse_place(s[5:]), move=True)
    if s.startswith("const "):
        return Const(s[6:].strip())
    # a function item used as a value, e.g. `core::f64::<impl f64>::total_cmp` passed where a closure is expected
    if re.match(r"^[A-Za-z_<][\w:<>, '&\[\];{}@#./()-]*$", s) and "::" in s and not s.startswith(("copy", "move")):
        return Const("fn-item " + s)
    raise ParseError("bad operand: " + s[:80])


def parse_rvalue(s):
    s = s.strip()
    try:
        return _rvalue(s)
    except ParseError:
        return Unsupported(s)


def _rvalue(s):
    if s.startswith("no_retag "):
        s = s[len("no_retag "):].strip()
    m = re.match(r"^&raw (const|mut) \(fake\) (.*)$", s)
    if m:
        # the bounds-check idiom `_a = &raw const (fake) (*_s); _n = PtrMetadata(move _a)`: only the slice length is read
        return RefOf(parse_place(m.group(2).strip()), False)
    if s.startswith("&raw "):
        return Unsupported(s)
    if s.startswith("&mut "):
        return RefOf(parse_place(s[5:]), True)
    if s.startswith("&"):
        rest = s[1:].strip()
        if rest.startswith("fake "):
            return Unsupported(s)
        return RefOf(parse_place(rest), False)
    # cast: "<operand> as <ty> (<kind>)" -- operand first
    if s.startswith(("copy ", "move ", "const ")):
        parts = _split_top_as(s)
        if parts:
            op_s, ty_s = parts
            km = re.match(r"^(.*) \(([\w(), ]+)\)$", ty_s, re.S)
            if km:
                return Cast(parse_operand(op_s), km.group(1).strip(), km.group(2))
        return parse_operand(s)
    m = re.match(r"^(\w+)\((.*)\)$", s, re.S)
    if m and m.group(1) in BINOPS:
        a, b = split_top(m.group(2))
        return BinOp(m.group(1), parse_operand(a), parse_operand(b))
    if m and m.group(1) in UNOPS:
        return UnOp(m.group(1), parse_operand(m.group(2)))
    if m and m.group(1) == "discriminant":
        return Discriminant(parse_place(m.group(2)))
    if s == "()":
        return Aggregate("tuple", None, [])
    if s.startswith("["):
        end = find_matching(s, 0)
        if end != len(s) - 1:
            raise ParseError("array rvalue")
        inner = s[1:end]
        semi = split_top(inner, ";")
        if len(semi) == 2:
            return Repeat(parse_operand(semi[0]), semi[1].strip())
        ops = [parse_operand(x) for x in split_top(inner) if x]
        return Aggregate("array", None, ops)
    if s.startswith("("):
        end = find_matching(s, 0)
        if end != len(s) - 1:
            raise ParseError("tuple rvalue")
        parts = [x for x in split_top(s[1:end]) if x]
        return Aggregate("tuple", None, [parse_operand(x) for x in parts])
    # aggregates: Path { f: op, .. } | Path(op, ..) | {closure@..} { f: op } | bare Path
    if s.startswith("{closure@") or s.startswith("{coroutine@"):
        end = find_matching(s, 0)
        name = s[:end + 1]
        rest = s[end + 1:].strip()
        if not rest:
            return Aggregate("closure", name, [], [])
        if rest.startswith("{"):
            e2 = find_matching(rest, 0)
            names, ops = _named_fields(rest[1:e2])
            return Aggregate("closure", name, ops, names)
        raise ParseError("closure aggregate")
    if s.endswith("}"):
        # find the top-level '{' that opens the field list
        i = _last_top_open(s, "{")
        if i is not None and i > 0:
            name = s[:i].strip()
            names, ops = _named_fields(s[i + 1:-1])
            return Aggregate("struct", name, ops, names)
    if s.endswith(")"):
        i = _last_top_open(s, "(")
        if i is not None and i > 0:
            name = s[:i].strip()
            if re.match(r"^[\w:<>, '&\[\];()]+$", name):
                ops = [parse_operand(x) for x in split_top(s[i + 1:-1]) if x]
                return Aggregate("tstruct", name, ops)
    if re.match(r"^[A-Za-z_][\w:<>, '&\[\];()]*$", s):
        return Aggregate("unit", s, [])
    raise ParseError("unknown rvalue: " + s[:100])


def _split_top_as(s):
    depth = 0
    i, n = 0, len(s)
    while i < n:
        c = s[i]
        if c == "-" and i + 1 < n and s[i + 1] == ">":
            i += 2
            continue
        if c in OPEN:
            depth += 1
        elif c in CLOSE:
            depth -= 1
        elif depth == 0 and s.startswith(" as ", i):
            return s[:i], s[i + 4:]
        i += 1
    return None


def _last_top_open(s, ch):
    """index of the opening bracket `ch` matching the final closing bracket of s, if top-level."""
    depth = 0
    i = len(s) - 1
    close = {"{": "}", "(": ")"}[ch]
    if s[i] != close:
        return None
    # scan backwards
    while i >= 0:
        c = s[i]
        if c == ">" and i > 0 and s[i - 1] in "-=":
            i -= 2
            continue
        if c in CLOSE:
            depth += 1
        elif c in OPEN:
            depth -= 1
            if depth == 0:
                return i if c == ch else None
        i -= 1
    return None


def _named_fields(inner):
    names, ops = [], []
    for part in split_top(inner):
        if not part:
            continue
        m = re.match(r"^(\w+)\s*:\s*(.*)$", part, re.S)
        if not m:
            raise ParseError("bad named field: " + part[:60])
        names.append(m.group(1))
        ops.append(parse_operand(m.group(2)))
    return names, ops


# ---------------------------------------------------------------- statements / terminators
TARGETS_RE = re.compile(r"->\s*(\[.*\]|unwind [\w() ]+|bb\d+)\s*$")


def parse_targets(t):
    """'[return: bb1, unwind continue]' -> {'return': 1, 'unwind': 'continue'} ; 'unwind continue' -> {}"""
    d = {}
    t = t.strip()
    if t.startswith("["):
        for part in split_top(t[1:-1]):
            m = re.match(r"^(\w+)\s*:\s*bb(\d+)$", part)
            if m:
                d[m.group(1)] = int(m.group(2))
                continue
            m = re.match(r"^(\d+|otherwise)\s*:\s*bb(\d+)$", part)
            if m:
                d[m.group(1)] = int(m.group(2))
    return d


def parse_statement(line):
    s = line.strip()
    if s.endswith(";"):
        s = s[:-1]
    if s in ("nop",) or s.startswith(("StorageLive", "StorageDead", "FakeRead", "PlaceMention", "Retag",
                                       "AscribeUserType", "Coverage", "ConstEvalCounter", "BackwardIncompatibleDropHint")):
        return Nop()
    if s == "return":
        return Return()
    if s == "unreachable":
        return Unreachable()
    if s == "resume" or s.startswith("terminate") or s == "abort":
        return Resume()
    m = re.match(r"^goto -> bb(\d+)$", s)
    if m:
        return Goto(int(m.group(1)))
    m = re.match(r"^switchInt\((.*)\) -> (\[.*\])$", s, re.S)
    if m:
        t = parse_targets(m.group(2))
        cases = {int(k): v for k, v in t.items() if k != "otherwise"}
        return SwitchInt(parse_operand(m.group(1)), cases, t.get("otherwise"))
    m = re.match(r"^drop\((.*)\) -> (\[.*\])$", s, re.S)
    if m:
        return Drop(parse_place(m.group(1)), parse_targets(m.group(2)).get("return"))
    if s.startswith("assert("):
        end = find_matching(s, len("assert"))
        inner = s[len("assert("):end]
        tm = TARGETS_RE.search(s[end + 1:])
        parts = split_top(inner)
        cond = parts[0].strip()
        neg = False
        if cond.startswith("!"):
            neg = True
            cond = cond[1:].strip()
        target = parse_targets(tm.group(1)).get("success") if tm else None
        return Assert(parse_operand(cond), neg, parts[1] if len(parts) > 1 else "", target)
    # assignment or call
    eq = _top_level_eq(s)
    if eq is None:
        # diverging call without destination?  e.g. `_4 = begin_panic(..) -> unwind continue` has '='
        return Unsupported(s)
    lhs, rhs = s[:eq].strip(), s[eq + 1:].strip()
    tm = TARGETS_RE.search(rhs)
    if tm and rhs[:tm.start()].rstrip().endswith(")"):
        call_s = rhs[:tm.start()].rstrip()
        i = _last_top_open(call_s, "(")
        if i is None:
            return Unsupported(s)
        callee = call_s[:i].strip()
        args_s = call_s[i + 1:-1]
        try:
            args = [parse_operand(x) for x in split_top(args_s) if x]
            dest = parse_place(lhs)
        except ParseError:
            return Unsupported(s)
        return Call(dest, callee, args, parse_targets(tm.group(1)).get("return"), s)
    try:
        place = parse_place(lhs)
    except ParseError:
        return Unsupported(s)
    return Assign(place, parse_rvalue(rhs), s)


def _top_level_eq(s):
    depth = 0
    for i, c in enumerate(s):
        if c in "([{":
            depth += 1
        elif c in ")]}":
            depth -= 1
        elif c == "=" and depth == 0:
            if i + 1 < len(s) and s[i + 1] in "=>":
                continue
            if i > 0 and s[i - 1] in "=!<>":
                continue
            return i
    return None


# ---------------------------------------------------------------- whole file
FN_RE = re.compile(r"^fn (.*)\{\s*$")


def parse_mir(text):
    """Returns (functions: list[Function], consts: {name: literal text})."""
    lines = text.split("\n")
    funcs, consts = [], {}
    i, n = 0, len(lines)
    while i < n:
        line = lines[i]
        m = re.match(r"^const (.+): ([^=:]+?) = const (.*);\s*$", line)
        if m and "promoted[" not in m.group(1):
            # free and associated constants: keyed by their last path segment (and by the full printed name)
            consts[m.group(1)] = m.group(3).strip()
            consts[m.group(1).split("::")[-1]] = m.group(3).strip()
            i += 1
            continue
        cm = re.match(r"^(?:const|static(?: mut)?) (.*): (.*) = \{\s*$", line)
        if cm or (line.startswith("fn ") and line.rstrip().endswith("{")):
            if cm:
                # promoted constants and const / static items whose initialiser has a body: parameterless functions
                f = Function(cm.group(1), cm.group(1))
                f.ret = cm.group(2)
                f.is_promoted = True
                f.is_const_item = "promoted[" not in cm.group(1)
            else:
                header = line.rstrip()[3:-1].strip()
                f = _parse_header(header)
            i += 1
            cur = None
            stmts = []
            while i < n and lines[i] != "}":
                l = lines[i]
                ls = l.strip()
                bm = re.match(r"^bb(\d+)( \(cleanup\))?: \{$", ls)
                if bm:
                    cur = int(bm.group(1))
                    stmts = []
                elif cur is not None and ls == "}":
                    if stmts:
                        f.blocks[cur] = (stmts[:-1], stmts[-1])
                    cur = None
                elif cur is not None and ls:
                    stmts.append(parse_statement(ls))
                else:
                    lm = re.match(r"^let (?:mut )?_(\d+): (.*);$", ls)
                    if lm:
                        f.locals[int(lm.group(1))] = lm.group(2)
                i += 1
            if not any(g.name == f.name and g.params == f.params and not getattr(g, "is_promoted", False) for g in funcs[-4:]) \
                    or getattr(f, "is_promoted", False):
                funcs.append(f)
        i += 1
    return funcs, consts


def _parse_header(header):
    # NAME(PARAMS) -> RET      (NAME may contain '(' only inside <impl at ...> spans: no parens there)
    # find the '(' that starts the parameter list: first top-level '(' not inside <...>
    depth = 0
    pos = None
    i = 0
    while i < len(header):
        c = header[i]
        if c == "-" and header[i + 1:i + 2] == ">":
            i += 2
            continue
        if c in "<[{":
            depth += 1
        elif c in ">]}":
            depth -= 1
        elif c == "(" and depth == 0:
            pos = i
            break
        i += 1
    if pos is None:
        raise ParseError("bad fn header: " + header[:100])
    name = header[:pos]
    end = find_matching(header, pos)
    f = Function(name, header)
    for p in split_top(header[pos + 1:end]):
        if not p:
            continue
        m = re.match(r"^_(\d+): (.*)$", p, re.S)
        if m:
            f.params.append((int(m.group(1)), m.group(2).strip()))
    rest = header[end + 1:].strip()
    if rest.startswith("->"):
        f.ret = rest[2:].strip()
    m = re.search(r"<impl at (src/[\w/.]+):(\d+):", name)
    if m:
        f.src_span = (m.group(1), int(m.group(2)))
    return f
