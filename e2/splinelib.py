"""Shared helpers for the whole-function encodings of constrained_spline and linear."""
import z3

import api
from domains import FPDomain, RealDomain
from interp import Array, Cell, Interp, SliceRef, Struct


def knots_args(dom, n):
    c = Cell(Array([Struct("Knot", [dom.sym("x%d" % i), dom.sym("y%d" % i)]) for i in range(n)]))
    return [SliceRef(c, (), 0, n)]


def explore(e, fname, n, dom, max_paths=1024, pre=()):
    """Symbolically execute `constrained_spline` / `linear` on n symbolic knots.
    Returns list of (path, segs) with segs = [(end_term, [coef terms])] or None for panicking paths."""
    it = Interp(e.program, dom, max_paths=max_paths)
    fn = e.program.find(fname)
    paths = it.explore(fn, lambda d: knots_args(d, n))
    e.rep.functions.update(it.functions_run)
    # The pinned code has one binary decision per interior knot (spline) / per segment (linear) and all of its paths are
    # feasible; the (solver-backed) feasibility filter is only needed when changed code produces more paths than that.
    nominal = 2 ** (n - 2) if fname == "constrained_spline" else 2 ** (n - 1)
    filter_paths = len(paths) > nominal
    out = []
    for p in paths:
        # a path whose own conditions are contradictory (e.g. the `None` arm of a `partial_cmp` match in real arithmetic)
        # is not a path of the function; dropping it is sound, keeping it would only produce vacuous obligations
        if p.conds and filter_paths:
            # quotient definitions are used in their guarded form (d != 0 -> q*d = n): a path that divides by zero must stay
            # visible to the "no divisor can vanish" obligation instead of being dropped as contradictory
            idx = list(getattr(p, "nonzero_side_index", []))
            guarded = list(p.side)
            for d_, k_ in zip(p.nonzero, idx):
                if k_ < len(guarded):
                    guarded[k_] = z3.Implies(d_ != 0, p.side[k_])
            rc, _, _ = e.check(list(pre) + list(p.conds) + guarded, cap_ms=3000)
            if rc == z3.unsat:
                continue
        if p.panic is not None:
            out.append((p, None))
            continue
        segs = []
        for s in p.result.fields[0].fields:
            end = s.fields[0]
            coefs = api.flat(s.fields[1])
            segs.append((end, coefs))
        out.append((p, segs))
    return out


def rvars(n):
    return [z3.Real("x%d" % i) for i in range(n)], [z3.Real("y%d" % i) for i in range(n)]


def fvars(n):
    s = z3.Float64()
    return [z3.FP("x%d" % i, s) for i in range(n)], [z3.FP("y%d" % i, s) for i in range(n)]


def pev(c, x):
    """mathematical value of sum c_i x^i (c: list of z3 reals)"""
    r = z3.RealVal(0)
    pw = z3.RealVal(1)
    for ci in c:
        r = r + ci * pw
        pw = pw * x
    return r


def pdev(c, x):
    r = z3.RealVal(0)
    pw = z3.RealVal(1)
    for i, ci in enumerate(c):
        if i == 0:
            continue
        r = r + i * ci * pw
        pw = pw * x
    return r


def divisor_cases(p):
    """[(condition, goal)] for "no divisor can vanish": divisor k must be non-zero given only the quotient definitions that
    precede it (its own definition q*d = n would make d != 0 true by definition whenever n != 0)."""
    idx = list(getattr(p, "nonzero_side_index", [])) or list(range(len(p.nonzero)))
    seen, cases = set(), []
    for d, k in zip(p.nonzero, idx):
        key = (str(d), k if any(str(d) in str(sd) for sd in p.side[:k]) else -1)
        if (str(d),) in seen:
            continue
        seen.add((str(d),))
        pre_side = list(p.side[:k])
        cases.append((z3.And(pre_side) if pre_side else z3.BoolVal(True), d != 0))
    return cases
