"""Models of the std / core items the crate's kernels and glue call.

Only documented behaviour is modelled; every model is listed in the evidence as part of the
trusted base.  Unknown callees fall through to crate dispatch and, failing that, to
Unsupported (obligation 'not encoded').
"""
import re

import z3

from domains import Num
from interp import (ResV, CFV, ListIter, TakeIter, remaining_len, EnumVal, Array, ChainIter, ClonedIter, EnumerateIter, MapIter, OnceIter, Opt, Panic, Ref,
                    RevIter, SkipIter, SliceIter, SliceRef, Struct, Tuple, UNIT, Unsupported, VecIntoIter,
                    VecV, ZipIter, clone_value, into_iter, read_path, write_path, IterBase)

NOT_BUILTIN = object()

USED = set()


def deref(v):
    while isinstance(v, Ref):
        v = read_path(v.cell, v.path)
    return v


def as_slice(v):
    """&[T], &Vec<T>, &[T;N] -> SliceRef"""
    if isinstance(v, SliceRef):
        return v
    if isinstance(v, Ref):
        tgt = read_path(v.cell, v.path)
        if isinstance(tgt, (Array, VecV)):
            return SliceRef(v.cell, v.path, 0, len(tgt.fields))
        if isinstance(tgt, (Ref, SliceRef)):
            return as_slice(tgt)
    raise Unsupported("as_slice of %r" % (v,))


def elem_ref(sl, i):
    return Ref(sl.cell, sl.path + (sl.start + i,))


_APPROX_UF = {}


def approx_base(dom, name, a, b, extra):
    """f64 base relation of the approx crate.  Concrete operands: approx 0.5's definition; symbolic: uninterpreted."""
    if all(x.conc is not None for x in [a, b] + list(extra)) and isinstance(a.conc, float):
        x, y = a.conc, b.conc
        eps = extra[0].conc
        if name == "abs_diff_eq":
            return (x - y if x > y else y - x) <= eps
        mr = extra[1].conc
        if x == y:
            return True
        if x in (float("inf"), float("-inf")) or y in (float("inf"), float("-inf")):
            return False
        d = abs(x - y)
        if d <= eps:
            return True
        return d <= max(abs(x), abs(y)) * mr
    sort = a.t.sort()
    key = (name, sort.name())
    if key not in _APPROX_UF:
        n = 3 if name == "abs_diff_eq" else 4
        _APPROX_UF[key] = z3.Function("ADE" if name == "abs_diff_eq" else "REL", *([sort] * n + [z3.BoolSort()]))
    return _APPROX_UF[key](a.t, b.t, *[x.t for x in extra])


def ord_disc(it, o):
    """concrete -1 / 0 / 1 of an Ordering value whose discriminant may be a term (decided here if so)"""
    d = o.disc
    if isinstance(d, int):
        return d
    if it.decide(d == -1):
        return -1
    if it.decide(d == 0):
        return 0
    return 1


def try_builtin(it, callee, args):
    c = callee
    # rustc prints std paths with or without the crate prefix depending on edition / imports
    if c.startswith(("f64::<impl f64>::", "slice::<impl [", "num::<impl usize>::", "bool::<impl bool>::", "array::<impl [")):
        c = "core::" + c
    dom = it.dom

    def used(tag):
        USED.add(tag)

    # ---- f64 intrinsics
    m = re.match(r"^(?:std|core)::f64::<impl f64>::(\w+)$", c)
    if m and m.group(1) not in ("total_cmp", "partial_cmp"):
        name = m.group(1)
        a = [deref(x) for x in args]
        used("f64::" + name)
        if name == "mul_add":
            return dom.fma(a[0], a[1], a[2])
        if name == "recip":
            return dom.recip(a[0])
        if name == "ln":
            return dom.ln(a[0])
        if name == "exp":
            return dom.exp(a[0])
        if name == "max":
            return dom.max(a[0], a[1])
        if name == "abs":
            return dom.abs(a[0])
        if name == "min":
            return dom.min(a[0], a[1])
        if name == "copysign":
            return dom.copysign(a[0], a[1])
        if name == "signum":
            return dom.copysign(dom.const(1.0), a[0])
        if name == "powi" and isinstance(args[1], int) and 0 <= args[1] <= 16:
            r = dom.const(1.0)
            for _ in range(args[1]):
                r = dom.mul(r, a[0])
            return r
        if name == "classify":
            x = a[0]
            cats = [("Nan", 0), ("Infinite", 1), ("Zero", 2), ("Subnormal", 3), ("Normal", 4)]
            if x.conc is not None:
                import math as _m
                v_ = x.conc
                k = 0 if _m.isnan(v_) else 1 if _m.isinf(v_) else 2 if v_ == 0.0 else 3 if abs(v_) < 2.2250738585072014e-308 else 4
                return EnumVal("FpCategory", cats[k][0], k)
            if not z3.is_fp(x.t):
                raise Unsupported("classify of a real-embedded value")
            t = x.t
            if it.decide(z3.fpIsNaN(t)):
                return EnumVal("FpCategory", "Nan", 0)
            if it.decide(z3.fpIsInf(t)):
                return EnumVal("FpCategory", "Infinite", 1)
            if it.decide(z3.fpIsZero(t)):
                return EnumVal("FpCategory", "Zero", 2)
            if it.decide(z3.fpIsSubnormal(t)):
                return EnumVal("FpCategory", "Subnormal", 3)
            return EnumVal("FpCategory", "Normal", 4)
        if name == "clamp":
            lo, hi = a[1], a[2]
            if lo.conc is not None and hi.conc is not None and not (lo.conc <= hi.conc):
                raise Panic("min > max, or either was NaN")
            x = a[0]
            # std: let mut x = self; if x < min { x = min } if x > max { x = max } x   (NaN stays NaN)
            if it.decide(dom.cmp("Lt", x, lo)):
                x = lo
            if it.decide(dom.cmp("Gt", x, hi)):
                x = hi
            return x
        if name in ("is_sign_negative", "is_sign_positive"):
            x = a[0]
            if x.conc is not None:
                import math as _m
                neg = _m.copysign(1.0, x.conc) < 0
            elif z3.is_fp(x.t):
                neg = z3.fpIsNegative(x.t)
                return neg if name == "is_sign_negative" else z3.Not(neg)
            else:
                raise Unsupported("sign bit of a real-embedded value")
            return neg if name == "is_sign_negative" else (not neg)
        if name == "is_nan":
            if a[0].conc is not None:
                return a[0].conc != a[0].conc
            if z3.is_fp(a[0].t):
                return z3.fpIsNaN(a[0].t)
            return False  # real-arithmetic interpretation: no NaN
        if name in ("is_normal", "is_finite", "is_infinite", "is_subnormal") and a[0].conc is not None:
            import math as _m
            x = a[0].conc
            if name == "is_finite":
                return not (_m.isnan(x) or _m.isinf(x))
            if name == "is_infinite":
                return _m.isinf(x)
            normal = not (_m.isnan(x) or _m.isinf(x)) and abs(x) >= 2.2250738585072014e-308
            return normal if name == "is_normal" else (x != 0.0 and not _m.isnan(x) and not _m.isinf(x) and not normal)
        if name in ("is_normal", "is_finite", "is_infinite") and a[0].conc is None and z3.is_fp(a[0].t):
            t = a[0].t
            return {"is_normal": z3.fpIsNormal(t), "is_finite": z3.And(z3.Not(z3.fpIsNaN(t)), z3.Not(z3.fpIsInf(t))),
                    "is_infinite": z3.fpIsInf(t)}[name]
        try:
            return dom.unary_uf(name, a[0])
        except ValueError:
            pass
        raise Unsupported("f64 method " + name)
    # ---- operator traits on f64 / &f64
    m = re.match(r"^<&?(?:'\w+ )?f64 as (Add|Sub|Mul|Div|Neg)(?:<&?(?:'\w+ )?f64>)?>::(\w+)$", c)
    if m:
        a = [deref(x) for x in args]
        used("f64 operator trait " + m.group(1))
        if m.group(1) == "Neg":
            return dom.neg(a[0])
        return it.binop(m.group(1), a[0], a[1])
    m = re.match(r"^<f64 as (AddAssign|SubAssign|MulAssign|DivAssign)(?:<&?(?:'\w+ )?f64>)?>::(\w+)$", c)
    if m:
        r = args[0]
        b = deref(args[1])
        cur = read_path(r.cell, r.path)
        op = {"AddAssign": "Add", "SubAssign": "Sub", "MulAssign": "Mul", "DivAssign": "Div"}[m.group(1)]
        used("f64 " + m.group(1))
        write_path(r.cell, r.path, it.binop(op, cur, b))
        return UNIT
    # ---- Result / the `?` operator
    if re.match(r"^<(?:std::result::)?Result<.*> as Try>::branch$", c, re.S) and isinstance(args[0], ResV):
        r = args[0]
        used("Result::branch (?)")
        return CFV(False, r.fields[0]) if r.ok else CFV(True, ResV(False, r.fields[0]))
    if re.match(r"^<(?:std::result::)?Result<.*> as FromResidual<.*>>::from_residual$", c, re.S) and isinstance(args[0], ResV):
        return ResV(False, args[0].fields[0])
    if re.match(r"^<(?:std::option::)?Option<.*> as Try>::branch$", c, re.S) and isinstance(args[0], Opt):
        used("Option ?")
        o = args[0]
        return CFV(False, o.fields[0]) if o.some else CFV(True, Opt(None, False))
    if re.match(r"^<(?:std::option::)?Option<.*> as FromResidual<.*>>::from_residual$", c, re.S):
        return Opt(None, False)
    m = re.match(r"^(?:std::result::)?Result::<.*>::(unwrap_or_else|map|map_err|and_then|unwrap_or_default|err|map_or|is_ok_and|or_else|unwrap_err|expect_err)(?:::<.*>)?$", c, re.S)
    if m and isinstance(args[0], ResV):
        r = args[0]
        nm = m.group(1)
        used("Result::" + nm)
        if nm == "unwrap_or_else":
            return r.fields[0] if r.ok else it.call_closure(args[1], [r.fields[0]])
        if nm == "map":
            return ResV(True, it.call_closure(args[1], [r.fields[0]])) if r.ok else r
        if nm == "map_err":
            return r if r.ok else ResV(False, it.call_closure(args[1], [r.fields[0]]))
        if nm == "and_then":
            return it.call_closure(args[1], [r.fields[0]]) if r.ok else r
        if nm == "or_else":
            return r if r.ok else it.call_closure(args[1], [r.fields[0]])
        if nm == "err":
            return Opt(None, False) if r.ok else Opt(r.fields[0], True)
        if nm == "map_or":
            return it.call_closure(args[2], [r.fields[0]]) if r.ok else args[1]
        if nm == "is_ok_and":
            return it.decide(it.call_closure(args[1], [r.fields[0]])) if r.ok else False
        if nm in ("unwrap_err", "expect_err"):
            if r.ok:
                raise Panic("called `Result::unwrap_err()` on an `Ok` value")
            return r.fields[0]
        if nm == "unwrap_or_default" and not r.ok:
            raise Unsupported("Result::unwrap_or_default on Err")
        return r.fields[0]
    m = re.match(r"^(?:std::result::)?Result::<.*>::(unwrap|expect|is_ok|is_err|ok|unwrap_or)$", c, re.S)
    if m and isinstance(args[0], ResV):
        r = args[0]
        if m.group(1) in ("unwrap", "expect"):
            if not r.ok:
                raise Panic("called `Result::unwrap()` on an `Err` value")
            return r.fields[0]
        if m.group(1) == "is_ok":
            return r.ok
        if m.group(1) == "is_err":
            return not r.ok
        if m.group(1) == "ok":
            return Opt(r.fields[0], True) if r.ok else Opt(None, False)
        return r.fields[0] if r.ok else args[1]
    # ---- sorting (comparator returning Ordering): insertion sort -- for a consistent comparator the outcome is the unique
    #      stable sorted order whatever algorithm std uses
    m = re.match(r"^(?:std|core)::slice::<impl \[(.*)\]>::(sort_by|sort_unstable_by)(?:::<.*>)?$", c, re.S)
    if m:
        used("[T]::sort_by")
        sl = as_slice(args[0])
        from interp import Cell as _Cell
        cl = _Cell(args[1])
        n = len(sl)
        for i in range(1, n):
            j = i
            while j > 0:
                ra, rb = elem_ref(sl, j), elem_ref(sl, j - 1)
                o = it.call_closure(cl, [ra, rb])
                if not (isinstance(o, EnumVal) and ord_disc(it, o) == -1):
                    break
                va, vb = read_path(ra.cell, ra.path), read_path(rb.cell, rb.path)
                write_path(ra.cell, ra.path, vb)
                write_path(rb.cell, rb.path, va)
                j -= 1
        return UNIT
    m = re.match(r"^(?:std|core)::slice::<impl \[(.*)\]>::swap$", c, re.S)
    if m:
        sl = as_slice(args[0])
        i, j = args[1], args[2]
        if i >= len(sl) or j >= len(sl):
            raise Panic("index out of bounds in swap")
        ra, rb = elem_ref(sl, i), elem_ref(sl, j)
        va, vb = read_path(ra.cell, ra.path), read_path(rb.cell, rb.path)
        write_path(ra.cell, ra.path, vb)
        write_path(rb.cell, rb.path, va)
        return UNIT
    # ---- explicit closure calls through the Fn traits
    m = re.match(r"^<(.*) as (Fn|FnMut|FnOnce)<(.*)>>::(call|call_mut|call_once)$", c, re.S)
    if m and len(args) == 2:
        used("Fn::call")
        cl = args[0]
        from interp import Cell as _Cell
        if isinstance(cl, Ref):
            tgt = read_path(cl.cell, cl.path)
            while isinstance(tgt, Ref):
                cl, tgt = tgt, read_path(tgt.cell, tgt.path)
            if cl.path == ():
                closure = cl.cell
            else:
                closure = _Cell(tgt)
        else:
            closure = _Cell(cl)
        a = args[1]
        return it.call_closure(closure, list(a.fields) if isinstance(a, Tuple) else ([] if a is UNIT else [a]))
    m = re.match(r"^(?:std::ops::)?RangeInclusive::<usize>::new$", c)
    if m:
        return Struct("RangeInclusive", [args[0], args[1], False])
    # ---- arrays by value
    m = re.match(r"^(?:core::|std::)?array::<impl \[(.*); (\d+|N)\]>::(map|iter|iter_mut|as_slice|len)(?:::<.*>)?$", c, re.S)
    if m:
        name = m.group(3)
        used("[T; N]::" + name)
        if name == "map":
            arr = args[0]
            from interp import Cell as _Cell
            cl = _Cell(args[1])
            return Array([it.call_closure(cl, [x]) for x in arr.fields])
        sl = as_slice(args[0])
        if name == "iter":
            return SliceIter(sl)
        if name == "iter_mut":
            return SliceIter(sl, True)
        if name == "as_slice":
            return sl
        if name == "len":
            return len(sl)
    # ---- bool helpers
    m = re.match(r"^core::bool::<impl bool>::(then_some|then)(?:::<.*>)?$", c)
    if m:
        used("bool::" + m.group(1))
        b = args[0]
        hit = b if isinstance(b, bool) else it.decide(b)
        if not hit:
            return Opt(None, False)
        return Opt(args[1] if m.group(1) == "then_some" else it.call_closure(args[1], []), True)
    # ---- comparisons of f64
    if re.match(r"^<f64 as PartialOrd(?:<f64>)?>::partial_cmp$", c) or re.match(r"^(?:core|std)::f64::<impl f64>::partial_cmp$", c):
        a, b = deref(args[0]), deref(args[1])
        used("f64::partial_cmp")
        if a.conc is not None and b.conc is not None:
            if a.conc < b.conc:
                return Opt(EnumVal("Ordering", "Less", -1), True)
            if a.conc == b.conc:
                return Opt(EnumVal("Ordering", "Equal", 0), True)
            if a.conc > b.conc:
                return Opt(EnumVal("Ordering", "Greater", 1), True)
            return Opt(None, False)
        # Symbolic operands: only "unordered or not" is decided here; the Ordering itself stays a term (-1 / 0 / 1) and is
        # decided by whoever inspects it, so `matches!(a.partial_cmp(&b), Some(Greater))` forks two ways, not four.
        lt, eq = dom.cmp("Lt", a, b), dom.cmp("Eq", a, b)
        if z3.is_fp(a.t):
            if it.decide(z3.Or(z3.fpIsNaN(a.t), z3.fpIsNaN(b.t))):
                return Opt(None, False)
        disc = z3.If(lt, z3.IntVal(-1), z3.If(eq, z3.IntVal(0), z3.IntVal(1)))
        return Opt(EnumVal("Ordering", None, disc), True)
    if re.match(r"^(?:core|std)::f64::<impl f64>::total_cmp$", c):
        # IEEE 754 totalOrder.  Concrete operands: by their bit patterns.  Bit-precise symbolic operands: through the IEEE bit
        # vectors (sign-magnitude -> two's complement order; z3 has one NaN, so NaN payloads/signs are not distinguished).
        # Real-embedded operands (no -0.0, no NaN in that kit): <, >, otherwise Equal.
        a, b = deref(args[0]), deref(args[1])
        used("f64::total_cmp")
        if a.conc is not None and b.conc is not None:
            import struct as _st

            def key(x):
                w = _st.unpack("<q", _st.pack("<d", x))[0]
                return w ^ (((w >> 63) & 0xffffffffffffffff) >> 1) if w < 0 else w
            ka, kb = key(a.conc), key(b.conc)
            return EnumVal("Ordering", "Less", -1) if ka < kb else (EnumVal("Ordering", "Greater", 1) if ka > kb else EnumVal("Ordering", "Equal", 0))
        if z3.is_fp(a.t) and z3.is_fp(b.t):
            def zkey(t):
                w = z3.fpToIEEEBV(t)
                return z3.If(z3.Extract(63, 63, w) == 1, ~w, w | z3.BitVecVal(1 << 63, 64))
            ka, kb = zkey(a.t), zkey(b.t)
            return EnumVal("Ordering", None, z3.If(z3.ULT(ka, kb), z3.IntVal(-1), z3.If(z3.UGT(ka, kb), z3.IntVal(1), z3.IntVal(0))))
        return EnumVal("Ordering", None, z3.If(dom.cmp("Lt", a, b), z3.IntVal(-1), z3.If(dom.cmp("Gt", a, b), z3.IntVal(1), z3.IntVal(0))))
    m = re.match(r"^<&*(?:mut )?f64 as PartialEq(?:<&*(?:mut )?f64>)?>::(eq|ne)$", c)
    if m:
        a, b = deref(args[0]), deref(args[1])
        used("f64 PartialEq")
        return dom.cmp("Eq" if m.group(1) == "eq" else "Ne", a, b)
    m = re.match(r"^<&*(?:mut )?(?:\[f64\]|\[f64; \d+\]|(?:std::vec::)?Vec<f64>) as PartialEq(?:<.*>)?>::(eq|ne)$", c, re.S)
    if m:
        used("[f64] PartialEq")
        a, b = as_slice(args[0] if not isinstance(deref(args[0]), (Ref, SliceRef)) else deref(args[0])), \
            as_slice(args[1] if not isinstance(deref(args[1]), (Ref, SliceRef)) else deref(args[1]))
        if len(a) != len(b):
            r = False
        else:
            r = all(it.decide(dom.cmp("Eq", deref(elem_ref(a, i)), deref(elem_ref(b, i)))) for i in range(len(a)))
        return r if m.group(1) == "eq" else (not r)
    if c == "<T as PartialEq>::eq" and isinstance(deref(args[0]), Num):
        return dom.cmp("Eq", deref(args[0]), deref(args[1]))
    m = re.match(r"^(?:std|core)::ops::(Range|RangeInclusive)::<usize>::contains(?:::<.*>)?$", c)
    if m:
        r, x = deref(args[0]), deref(args[1])
        lo, hi = r.fields[0], r.fields[1]
        used("Range::contains")
        return (lo <= x < hi) if m.group(1) == "Range" else (lo <= x <= hi)
    m = re.match(r"^<f64 as From<(u8|u16|u32|i8|i16|i32|f32)>>::from$", c)
    if m:
        used("f64::from(" + m.group(1) + ")")
        x = args[0]
        if isinstance(x, int) and not isinstance(x, bool):
            return dom.const(float(x))
        if isinstance(x, Num):
            return x
        raise Unsupported("f64::from of %r" % (x,))
    m = re.match(r"^<&*(?:'\w+ )?(?:usize|u64|u32|i64|i32) as (Add|Sub|Mul|Div|Rem)<&*(?:'\w+ )?(?:usize|u64|u32|i64|i32)>>::(\w+)$", c)
    if m and all(isinstance(deref(x), int) for x in args):
        a, b = deref(args[0]), deref(args[1])
        used("integer " + m.group(1))
        return it.binop(m.group(1), a, b)
    m = re.match(r"^<(u8|u16|u32|u64|usize|i32|i64) as TryFrom<(u8|u16|u32|u64|usize|i32|i64)>>::try_from$", c)
    if m and isinstance(args[0], int):
        used("integer try_from")
        bits_ = {"u8": 8, "u16": 16, "u32": 32, "u64": 64, "usize": 64, "i32": 31, "i64": 63}[m.group(1)]
        return ResV(True, args[0]) if 0 <= args[0] < 2 ** bits_ else ResV(False, Struct("TryFromIntError", []))
    # ---- std::mem
    m = re.match(r"^(?:std|core)::mem::(swap|replace|take)::<(.*)>$", c, re.S)
    if m:
        used("mem::" + m.group(1))
        if m.group(1) == "swap":
            a, b = args
            va, vb = read_path(a.cell, a.path), read_path(b.cell, b.path)
            write_path(a.cell, a.path, vb)
            write_path(b.cell, b.path, va)
            return UNIT
        r = args[0]
        old_v = read_path(r.cell, r.path)
        if m.group(1) == "replace":
            write_path(r.cell, r.path, args[1])
            return old_v
        ty = m.group(2).strip()
        if ty == "f64":
            dflt = dom.const(0.0)
        elif re.match(r"^(?:std::vec::)?Vec<", ty):
            dflt = VecV([])
        elif re.match(r"^(?:std::option::)?Option<", ty):
            dflt = Opt(None, False)
        elif ty in ("usize", "u64", "i64", "u32", "i32"):
            dflt = 0
        elif ty == "bool":
            dflt = False
        elif re.match(r"^&(?:'\w+ )?(?:mut )?\[.*\]$", ty):
            from interp import Cell as _Cell
            dflt = SliceRef(_Cell(Array([])), (), 0, 0)
        else:
            raise Unsupported("mem::take of " + ty)
        write_path(r.cell, r.path, dflt)
        return old_v
    # ---- vec! and friends
    m = re.match(r"^(?:std::boxed::)?Box::<\[(.*); (\d+)\]>::new_uninit$", c, re.S)
    if m:
        used("vec![..] (Box::new_uninit + box_assume_init_into_vec_unsafe)")
        from interp import Cell as _Cell
        cell = _Cell(Struct("MaybeUninit", [UNIT, Struct("ManuallyDrop", [Struct("MaybeDangling", [None])])]))
        return Struct("Box", [Struct("Unique", [Struct("NonNull", [Ref(cell)])])])
    if re.match(r"^std::boxed::box_assume_init_into_vec_unsafe::<.*>$", c, re.S):
        r = args[0].fields[0].fields[0].fields[0]
        arr = read_path(r.cell, r.path).fields[1].fields[0].fields[0]
        if not isinstance(arr, Array):
            raise Unsupported("vec![..]: uninitialised box")
        return VecV(list(arr.fields))
    if re.match(r"^(?:std|alloc)::vec::from_elem::<.*>$", c, re.S):
        used("vec![x; n]")
        if not isinstance(args[1], int):
            raise Unsupported("vec![x; n] with symbolic n")
        return VecV([clone_value(args[0]) for _ in range(args[1])])
    m = re.match(r"^(?:std|core)::array::from_fn::<(.*)>$", c, re.S)
    if m:
        used("array::from_fn")
        mm = re.match(r"^[^,]+, (\w+),", m.group(1))
        n_ = None
        if mm and mm.group(1).isdigit():
            n_ = int(mm.group(1))
        elif mm and getattr(it, "const_env", None) and mm.group(1) in it.const_env[-1]:
            n_ = it.const_env[-1][mm.group(1)]
        if n_ is None:
            raise Unsupported("array::from_fn length")
        from interp import Cell as _Cell
        cl = _Cell(args[0])
        return Array([it.call_closure(cl, [i]) for i in range(n_)])
    m = re.match(r"^<(.*) as (?:std::borrow::|core::borrow::)?(Borrow|AsRef)<(.*)>>::(borrow|as_ref)$", c, re.S)
    if m and len(args) == 1 and isinstance(args[0], Ref):
        used("Borrow::borrow")
        inner = read_path(args[0].cell, args[0].path)
        return inner if isinstance(inner, (Ref, SliceRef)) else args[0]
    m = re.match(r"^<f64 as PartialOrd(?:<f64>)?>::(lt|le|gt|ge)$", c)
    if m:
        a, b = deref(args[0]), deref(args[1])
        return dom.cmp({"lt": "Lt", "le": "Le", "gt": "Gt", "ge": "Ge"}[m.group(1)], a, b)
    m = re.match(r"^<(?:std::cmp::)?Ordering as PartialEq>::(eq|ne)$", c)
    if m:
        a, b = deref(args[0]), deref(args[1])
        r = (a.disc == b.disc)
        if isinstance(r, bool):
            return r if m.group(1) == "eq" else (not r)
        return r if m.group(1) == "eq" else z3.Not(r)
    m = re.match(r"^(?:std|core)::cmp::Ordering::(is_lt|is_le|is_gt|is_ge|is_eq|is_ne|reverse)$", c)
    if m:
        o = deref(args[0])
        used("Ordering::" + m.group(1))
        d = o.disc
        if m.group(1) == "reverse":
            return EnumVal("Ordering", None, -d)
        return {"is_lt": d < 0, "is_le": d <= 0, "is_gt": d > 0, "is_ge": d >= 0, "is_eq": d == 0, "is_ne": d != 0}[m.group(1)]
    # ---- usize helpers
    m = re.match(r"^core::num::<impl usize>::(pow|is_power_of_two|abs_diff|div_ceil|next_power_of_two|checked_add|checked_mul|checked_div|wrapping_add|rem_euclid|div_euclid)$", c)
    if m and all(isinstance(x, int) for x in args):
        used("usize::" + m.group(1))
        nm = m.group(1)
        a = args[0]
        bb = args[1] if len(args) > 1 else None
        if nm == "pow":
            if a ** bb >= 2 ** 64:
                raise Panic("attempt to multiply with overflow")
            return a ** bb
        if nm == "is_power_of_two":
            return a > 0 and (a & (a - 1)) == 0
        if nm == "abs_diff":
            return abs(a - bb)
        if nm == "div_ceil":
            if bb == 0:
                raise Panic("attempt to divide by zero")
            return -(-a // bb)
        if nm == "next_power_of_two":
            k = 1
            while k < a:
                k *= 2
            return k
        if nm == "checked_add":
            return Opt(a + bb, True) if a + bb < 2 ** 64 else Opt(None, False)
        if nm == "checked_mul":
            return Opt(a * bb, True) if a * bb < 2 ** 64 else Opt(None, False)
        if nm == "checked_div":
            return Opt(a // bb, True) if bb != 0 else Opt(None, False)
        if nm == "wrapping_add":
            return (a + bb) % 2 ** 64
        if nm in ("rem_euclid", "div_euclid"):
            if bb == 0:
                raise Panic("attempt to divide by zero")
            return a % bb if nm == "rem_euclid" else a // bb
    m = re.match(r"^core::num::<impl usize>::(saturating_sub|saturating_add|min|max|checked_sub|wrapping_sub)$", c)
    if m and all(isinstance(x, int) for x in args):
        used("usize::" + m.group(1))
        a, b = args
        if m.group(1) == "saturating_sub":
            return max(a - b, 0)
        if m.group(1) == "saturating_add":
            return min(a + b, 2 ** 64 - 1)
        if m.group(1) == "min":
            return min(a, b)
        if m.group(1) == "max":
            return max(a, b)
        if m.group(1) == "checked_sub":
            return Opt(a - b, True) if a >= b else Opt(None, False)
        if m.group(1) == "wrapping_sub":
            return (a - b) % 2 ** 64
    m = re.match(r"^<usize as Ord>::(min|max)$", c) or re.match(r"^(?:core|std)::cmp::(min|max)::<usize>$", c)
    if m and all(isinstance(x, int) for x in args):
        used("usize Ord::" + m.group(1))
        return min(args) if m.group(1) == "min" else max(args)
    # ---- panics
    if "begin_panic" in c or "panic_fmt" in c or c.endswith("::panic") or "panicking::panic" in c:
        raise Panic(str(args[0]) if args else "panic")
    if "unwrap_failed" in c or "expect_failed" in c:
        raise Panic(c)
    # ---- slices
    m = re.match(r"^core::slice::<impl \[(.*)\]>::(\w+)(?:::<.*>)?$", c, re.S)
    if m:
        name = m.group(2)
        used("[T]::" + name)
        sl = as_slice(args[0])
        if name == "iter":
            return SliceIter(sl)
        if name == "iter_mut":
            return SliceIter(sl, True)
        if name == "first":
            return Opt(elem_ref(sl, 0), True) if len(sl) else Opt(None, False)
        if name == "last":
            return Opt(elem_ref(sl, len(sl) - 1), True) if len(sl) else Opt(None, False)
        if name == "len":
            return len(sl)
        if name == "is_empty":
            return len(sl) == 0
        if name in ("get", "get_mut"):
            i = args[1]
            if isinstance(i, Struct) and i.name in ("Range", "RangeTo", "RangeFrom", "RangeInclusive", "RangeFull", "RangeToInclusive"):
                n_ = len(sl)
                lo = i.fields[0] if i.name in ("Range", "RangeFrom", "RangeInclusive") else 0
                hi = {"Range": lambda: i.fields[1], "RangeTo": lambda: i.fields[0], "RangeFrom": lambda: n_, "RangeFull": lambda: n_,
                      "RangeInclusive": lambda: i.fields[1] + 1, "RangeToInclusive": lambda: i.fields[0] + 1}[i.name]()
                if lo > hi or hi > n_:
                    return Opt(None, False)
                return Opt(SliceRef(sl.cell, sl.path, sl.start + lo, sl.start + hi), True)
            if not isinstance(i, int):
                raise Unsupported("slice get with non-usize index")
            return Opt(elem_ref(sl, i), True) if i < len(sl) else Opt(None, False)
        if name == "split_last":
            if not len(sl):
                return Opt(None, False)
            return Opt(Tuple([elem_ref(sl, len(sl) - 1), SliceRef(sl.cell, sl.path, sl.start, sl.end - 1)]), True)
        if name == "split_first":
            if not len(sl):
                return Opt(None, False)
            return Opt(Tuple([elem_ref(sl, 0), SliceRef(sl.cell, sl.path, sl.start + 1, sl.end)]), True)
        if name in ("chunks_mut", "chunks_exact_mut", "rchunks_mut", "rchunks_exact_mut"):
            name = name[:-4]  # the chunks are SliceRefs into the same cell; mutability is not tracked by the model
        if name in ("chunks", "chunks_exact", "rchunks", "rchunks_exact", "windows"):
            k = args[1]
            if not isinstance(k, int) or k <= 0:
                raise Panic("chunk size must be non-zero")
            n = len(sl)
            sub = lambda a, b: SliceRef(sl.cell, sl.path, sl.start + a, sl.start + b)
            if name == "windows":
                return ListIter([sub(i, i + k) for i in range(0, max(n - k + 1, 0))])
            if name == "chunks":
                return ListIter([sub(i, min(i + k, n)) for i in range(0, n, k)])
            if name == "chunks_exact":
                full = n // k
                li = ListIter([sub(i * k, (i + 1) * k) for i in range(full)])
                li.remainder = sub(full * k, n)
                return li
            if name == "rchunks":
                return ListIter([sub(max(e_ - k, 0), e_) for e_ in range(n, 0, -k)])
            full = n // k
            li = ListIter([sub(n - (i + 1) * k, n - i * k) for i in range(full)])
            li.remainder = sub(0, n - full * k)
            return li
        if name in ("first_mut", "last_mut"):
            i = 0 if name == "first_mut" else len(sl) - 1
            return Opt(elem_ref(sl, i), True) if len(sl) else Opt(None, False)
        if name == "reverse":
            vals = [read_path(sl.cell, sl.path + (sl.start + i,)) for i in range(len(sl))]
            for i, v_ in enumerate(reversed(vals)):
                write_path(sl.cell, sl.path + (sl.start + i,), v_)
            return UNIT
        if name == "swap":
            i, j = args[1], args[2]
            if i >= len(sl) or j >= len(sl):
                raise Panic("index out of bounds")
            vi, vj = read_path(sl.cell, sl.path + (sl.start + i,)), read_path(sl.cell, sl.path + (sl.start + j,))
            write_path(sl.cell, sl.path + (sl.start + i,), vj)
            write_path(sl.cell, sl.path + (sl.start + j,), vi)
            return UNIT
        if name == "fill":
            for i in range(len(sl)):
                write_path(sl.cell, sl.path + (sl.start + i,), clone_value(args[1]))
            return UNIT
        if name in ("copy_from_slice", "clone_from_slice"):
            src = as_slice(args[1])
            if len(src) != len(sl):
                raise Panic("source slice length does not match destination slice length")
            vals = [clone_value(read_path(src.cell, src.path + (src.start + i,))) for i in range(len(src))]
            for i, v_ in enumerate(vals):
                write_path(sl.cell, sl.path + (sl.start + i,), v_)
            return UNIT
        if name == "split_at_mut":
            k = args[1]
            if k > len(sl):
                raise Panic("mid > len in split_at_mut")
            return Tuple([SliceRef(sl.cell, sl.path, sl.start, sl.start + k), SliceRef(sl.cell, sl.path, sl.start + k, sl.end)])
        if name in ("split_first_mut", "split_last_mut"):
            if not len(sl):
                return Opt(None, False)
            if name == "split_first_mut":
                return Opt(Tuple([elem_ref(sl, 0), SliceRef(sl.cell, sl.path, sl.start + 1, sl.end)]), True)
            return Opt(Tuple([elem_ref(sl, len(sl) - 1), SliceRef(sl.cell, sl.path, sl.start, sl.end - 1)]), True)
        if name in ("contains", "starts_with", "ends_with"):
            def eq_(x, y):
                x, y = deref(x), deref(y)
                if isinstance(x, Num):
                    return it.decide(dom.cmp("Eq", x, y))
                if isinstance(x, int):
                    return x == y
                raise Unsupported("slice %s over %r" % (name, x))
            if name == "contains":
                return any(eq_(elem_ref(sl, i), args[1]) for i in range(len(sl)))
            oth = as_slice(args[1])
            if len(oth) > len(sl):
                return False
            off = 0 if name == "starts_with" else len(sl) - len(oth)
            return all(eq_(elem_ref(sl, off + i), elem_ref(oth, i)) for i in range(len(oth)))
        if name == "binary_search_by":
            # std's loop (size halves; `base = if cmp == Greater { base } else { mid }`), then the final comparison
            from interp import Cell as _Cell
            cl = _Cell(args[1])
            size, base = len(sl), 0
            if size == 0:
                return ResV(False, 0)
            while size > 1:
                half = size // 2
                mid = base + half
                o = it.call_closure(cl, [elem_ref(sl, mid)])
                base = base if ord_disc(it, o) > 0 else mid
                size -= half
            o = it.call_closure(cl, [elem_ref(sl, base)])
            d_ = ord_disc(it, o)
            if d_ == 0:
                return ResV(True, base)
            return ResV(False, base + (1 if d_ < 0 else 0))
        if name == "concat":
            out = []
            for i in range(len(sl)):
                inner = as_slice(read_path(sl.cell, sl.path + (sl.start + i,)))
                out += [clone_value(read_path(inner.cell, inner.path + (inner.start + j,))) for j in range(len(inner))]
            return VecV(out)
        if name == "repeat":
            vals = [read_path(sl.cell, sl.path + (sl.start + i,)) for i in range(len(sl))]
            return VecV([clone_value(v_) for _ in range(args[1]) for v_ in vals])
        if name in ("to_vec",):
            return VecV([clone_value(read_path(sl.cell, sl.path + (sl.start + i,))) for i in range(len(sl))])
        if name == "split_at_checked":
            k = args[1]
            if k > len(sl):
                return Opt(None, False)
            return Opt(Tuple([SliceRef(sl.cell, sl.path, sl.start, sl.start + k), SliceRef(sl.cell, sl.path, sl.start + k, sl.end)]), True)
        if name == "split_at":
            k = args[1]
            if k > len(sl):
                raise Panic("mid > len in split_at")
            return Tuple([SliceRef(sl.cell, sl.path, sl.start, sl.start + k), SliceRef(sl.cell, sl.path, sl.start + k, sl.end)])
        if name == "partition_point":
            # std's binary search: size halves, base moves right while the predicate holds
            size, base = len(sl), 0
            if size == 0:
                return 0
            from interp import Cell as _Cell
            cl = _Cell(args[1])
            while size > 1:
                half = size // 2
                mid = base + half
                if it.decide(it.call_closure(cl, [elem_ref(sl, mid)])):
                    base = mid
                size -= half
            return base + (1 if it.decide(it.call_closure(cl, [elem_ref(sl, base)])) else 0)
        raise Unsupported("slice method " + name)
    m = re.match(r"^<\[(.*)\] as (Index|IndexMut)<(.*)>>::(index|index_mut)$", c, re.S)
    if m:
        sl = as_slice(args[0])
        idx = args[1]
        used("[T]::index " + m.group(3))
        if isinstance(idx, int):
            if idx >= len(sl):
                raise Panic("index out of bounds")
            return elem_ref(sl, idx)
        if isinstance(idx, Struct) and idx.name == "RangeFrom":
            s = idx.fields[0]
            if s > len(sl):
                raise Panic("slice start out of range")
            return SliceRef(sl.cell, sl.path, sl.start + s, sl.end)
        if isinstance(idx, Struct) and idx.name == "RangeTo":
            e = idx.fields[0]
            if e > len(sl):
                raise Panic("slice end out of range")
            return SliceRef(sl.cell, sl.path, sl.start, sl.start + e)
        if isinstance(idx, Struct) and idx.name == "Range":
            s, e = idx.fields
            if s > e or e > len(sl):
                raise Panic("slice range out of bounds")
            return SliceRef(sl.cell, sl.path, sl.start + s, sl.start + e)
        if isinstance(idx, Struct) and idx.name == "RangeFull":
            return sl
        if isinstance(idx, Struct) and idx.name in ("RangeInclusive", "RangeToInclusive"):
            s = idx.fields[0] if idx.name == "RangeInclusive" else 0
            e = (idx.fields[1] if idx.name == "RangeInclusive" else idx.fields[0]) + 1
            if s > e or e > len(sl):
                raise Panic("slice range out of bounds")
            return SliceRef(sl.cell, sl.path, sl.start + s, sl.start + e)
        raise Unsupported("slice index by %r" % (idx,))
    m = re.match(r"^(?:(?:std|core)::slice::)?(?:R?ChunksExact(?:Mut)?)::<.*>::(?:remainder|into_remainder)$", c, re.S)
    if m:
        li = deref(args[0])
        if isinstance(li, ListIter) and li.remainder is not None:
            return li.remainder
        raise Unsupported("remainder of a non-exact chunk iterator")
    # ---- Vec
    m = re.match(r"^<(?:std::vec::)?Vec<(.*)> as (Deref|DerefMut)>::(deref|deref_mut)$", c, re.S)
    if m:
        used("Vec::deref")
        return as_slice(args[0])
    m = re.match(r"^<(?:std::vec::)?Vec<(.*)> as (Index|IndexMut)<(.*)>>::(index|index_mut)$", c, re.S)
    if m:
        used("Vec::index")
        sl = as_slice(args[0])
        idx = args[1]
        if isinstance(idx, int):
            if idx >= len(sl):
                raise Panic("index out of bounds")
            return elem_ref(sl, idx)
        return try_builtin(it, "<[T] as Index<R>>::index", [sl, idx])
    m = re.match(r"^<(?:std::vec::)?Vec<(.*)> as Extend<(.*)>>::extend(?:::<.*>)?$", c, re.S)
    if m:
        used("Vec::extend")
        r = args[0]
        v = read_path(r.cell, r.path)
        itr = into_iter(args[1])
        by_ref = m.group(2).strip().startswith("&")
        while True:
            x = itr.next(it)
            if x is None:
                break
            v.fields.append(clone_value(deref(x)) if by_ref else x)
        return UNIT
    m = re.match(r"^(?:std::vec::)?Vec::<(.*)>::(\w+)(?:::<.*>)?$", c, re.S)
    if m:
        name = m.group(2)
        used("Vec::" + name)
        if name == "new":
            return VecV([])
        if name == "with_capacity":
            return VecV([])
        r = args[0]
        v = read_path(r.cell, r.path) if isinstance(r, Ref) else r
        if name == "push":
            v.fields.append(args[1])
            return UNIT
        if name == "extend_from_slice":
            sl2 = as_slice(args[1])
            for i in range(len(sl2)):
                v.fields.append(clone_value(read_path(sl2.cell, sl2.path + (sl2.start + i,))))
            return UNIT
        if name == "pop":
            return Opt(v.fields.pop(), True) if v.fields else Opt(None, False)
        if name == "truncate":
            del v.fields[args[1]:]
            return UNIT
        if name == "reverse":
            v.fields.reverse()
            return UNIT
        if name == "len":
            return len(v.fields)
        if name == "is_empty":
            return len(v.fields) == 0
        if name in ("as_slice", "as_mut_slice"):
            return as_slice(r)
        if name in ("dedup_by", "dedup_by_key", "dedup", "retain", "retain_mut"):
            from interp import Cell as _Cell
            if name in ("retain", "retain_mut"):
                cl = _Cell(args[1])
                keep = []
                for i in range(len(v.fields)):
                    if it.decide(it.call_closure(cl, [Ref(r.cell, r.path + (i,))])):
                        keep.append(i)
                v.fields[:] = [v.fields[i] for i in keep]
                return UNIT
            # std: walks the vector once; `same_bucket(&mut current, &mut last kept)` true => current is dropped
            cl = _Cell(args[1]) if name != "dedup" else None
            kept = []
            for i in range(len(v.fields)):
                if not kept:
                    kept.append(i)
                    continue
                cur, prev = Ref(r.cell, r.path + (i,)), Ref(r.cell, r.path + (kept[-1],))
                if name == "dedup_by":
                    same = it.call_closure(cl, [cur, prev])
                elif name == "dedup_by_key":
                    ka, kb = it.call_closure(cl, [cur]), it.call_closure(cl, [prev])
                    same = it.dom.cmp("Eq", ka, kb) if isinstance(ka, Num) else (ka == kb)
                else:
                    same = try_builtin(it, "<T as PartialEq>::eq", [cur, prev])
                if not it.decide(same):
                    kept.append(i)
            v.fields[:] = [v.fields[i] for i in kept]
            return UNIT
        if name == "clear":
            del v.fields[:]
            return UNIT
        if name == "drain":
            rg = deref(args[1])
            n_ = len(v.fields)
            if isinstance(rg, Struct) and rg.name in ("Range", "RangeTo", "RangeFrom", "RangeFull", "RangeInclusive", "RangeToInclusive"):
                lo = rg.fields[0] if rg.name in ("Range", "RangeFrom", "RangeInclusive") else 0
                hi = {"Range": lambda: rg.fields[1], "RangeTo": lambda: rg.fields[0], "RangeFrom": lambda: n_, "RangeFull": lambda: n_,
                      "RangeInclusive": lambda: rg.fields[1] + 1, "RangeToInclusive": lambda: rg.fields[0] + 1}[rg.name]()
            else:
                raise Unsupported("Vec::drain range %r" % (rg,))
            if lo > hi or hi > n_:
                raise Panic("drain range out of bounds")
            out = v.fields[lo:hi]
            del v.fields[lo:hi]
            return VecIntoIter(out)
        if name == "split_off":
            k = args[1]
            if k > len(v.fields):
                raise Panic("`at` split index out of bounds")
            tail = v.fields[k:]
            del v.fields[k:]
            return VecV(tail)
        if name == "append":
            o2 = args[1]
            ov = read_path(o2.cell, o2.path)
            v.fields.extend(ov.fields)
            del ov.fields[:]
            return UNIT
        if name == "swap_remove":
            k = args[1]
            if k >= len(v.fields):
                raise Panic("swap_remove index out of bounds")
            x = v.fields[k]
            v.fields[k] = v.fields[-1]
            v.fields.pop()
            return x
        if name == "resize":
            n_ = args[1]
            if n_ <= len(v.fields):
                del v.fields[n_:]
            else:
                v.fields.extend(clone_value(args[2]) for _ in range(n_ - len(v.fields)))
            return UNIT
        if name == "insert":
            if args[1] > len(v.fields):
                raise Panic("insertion index out of bounds")
            v.fields.insert(args[1], args[2])
            return UNIT
        if name == "remove":
            if args[1] >= len(v.fields):
                raise Panic("removal index out of bounds")
            return v.fields.pop(args[1])
        if name == "last":
            n_ = len(v.fields)
            return Opt(Ref(r.cell, r.path + (n_ - 1,)), True) if n_ else Opt(None, False)
        raise Unsupported("Vec method " + name)
    # ---- Option
    m = re.match(r"^(?:std::option::)?Option::<(.*)>::(\w+)(?:::<.*>)?$", c, re.S)
    if m:
        name = m.group(2)
        o = args[0]
        if isinstance(o, Ref) and name not in ("as_ref", "as_mut", "take", "replace", "get_or_insert", "get_or_insert_with", "insert"):
            o = read_path(o.cell, o.path)
        used("Option::" + name)
        if name in ("unwrap", "expect"):
            if not o.some:
                raise Panic("called `Option::unwrap()` on a `None` value")
            return o.fields[0]
        if name == "is_some":
            return o.some
        if name == "is_none":
            return not o.some
        if name == "unwrap_or":
            return o.fields[0] if o.some else args[1]
        if name == "map":
            if not o.some:
                return Opt(None, False)
            return Opt(it.call_closure(args[1], [o.fields[0]]), True)
        if name == "map_or":
            return it.call_closure(args[2], [o.fields[0]]) if o.some else args[1]
        if name == "and_then":
            return it.call_closure(args[1], [o.fields[0]]) if o.some else Opt(None, False)
        if name == "unwrap_or_else":
            return o.fields[0] if o.some else it.call_closure(args[1], [])
        if name in ("copied", "cloned"):
            return Opt(clone_value(deref(o.fields[0])), True) if o.some else Opt(None, False)
        if name == "filter":
            if not o.some:
                return Opt(None, False)
            from interp import Cell as _Cell
            return o if it.decide(it.call_closure(args[1], [Ref(_Cell(o.fields[0]))])) else Opt(None, False)
        if name == "or":
            return o if o.some else args[1]
        if name == "or_else":
            return o if o.some else it.call_closure(args[1], [])
        if name == "xor":
            o2 = args[1]
            if o.some and not o2.some:
                return o
            if o2.some and not o.some:
                return o2
            return Opt(None, False)
        if name == "and":
            return args[1] if o.some else Opt(None, False)
        if name == "zip":
            o2 = args[1]
            return Opt(Tuple([o.fields[0], o2.fields[0]]), True) if (o.some and o2.some) else Opt(None, False)
        if name == "ok_or":
            return ResV(True, o.fields[0]) if o.some else ResV(False, args[1])
        if name == "ok_or_else":
            return ResV(True, o.fields[0]) if o.some else ResV(False, it.call_closure(args[1], []))
        if name == "is_some_and":
            return it.decide(it.call_closure(args[1], [o.fields[0]])) if o.some else False
        if name == "is_none_or":
            return it.decide(it.call_closure(args[1], [o.fields[0]])) if o.some else True
        if name == "map_or_else":
            return it.call_closure(args[2], [o.fields[0]]) if o.some else it.call_closure(args[1], [])
        if name == "inspect":
            if o.some:
                from interp import Cell as _Cell
                it.call_closure(args[1], [Ref(_Cell(o.fields[0]))])
            return o
        if name == "unwrap_or_default":
            if o.some:
                return o.fields[0]
            ty = m.group(1).strip()
            if ty == "f64":
                return dom.const(0.0)
            if ty in ("usize", "u64", "i64", "u32", "i32"):
                return 0
            raise Unsupported("Option::unwrap_or_default of " + ty)
        if name in ("as_ref", "as_mut") and isinstance(o, Ref):
            ov = read_path(o.cell, o.path)
            return Opt(Ref(o.cell, o.path + (0,)), True) if ov.some else Opt(None, False)
        if name in ("take", "replace") and isinstance(o, Ref):
            ov = read_path(o.cell, o.path)
            write_path(o.cell, o.path, Opt(None, False) if name == "take" else Opt(args[1], True))
            return ov
        if name == "unwrap_unchecked":
            return o.fields[0]
        raise Unsupported("Option method " + name)
    # ---- iterators
    m = re.match(r"^<(.*) as (Iterator|DoubleEndedIterator|ExactSizeIterator|IntoIterator|Clone)>::(\w+)(?:::<.*>)?$", c, re.S)
    def _rangeish(x):
        return isinstance(x, Struct) and x.name in ("Range", "RangeInclusive", "RangeFrom")
    def _crate_iterator(x):
        # a value of a crate type with its own `Iterator::next`: adaptors and consumers run over CrateIter
        if not isinstance(x, Struct) or m.group(3) in ("next", "size_hint", "clone"):
            return False
        return any(len(f_.params) == 1 and re.search(r"\b%s\b" % re.escape(x.name), f_.params[0][1]) for f_ in it.p.by_method.get("next", []))
    if m and (isinstance(deref(args[0]) if args else None, (IterBase, VecV, SliceRef, Array)) or
              (args and isinstance(args[0], (SliceRef,))) or (args and _rangeish(deref(args[0]))) or
              (args and _crate_iterator(deref(args[0])))):
        name = m.group(3)
        used("Iterator::" + name)
        a0 = args[0]
        if name == "clone":
            return deref(a0).clone()
        if name == "into_iter":
            return into_iter(a0)
        if name == "next":
            x = deref(a0).next(it)
            return Opt(x, True) if x is not None else Opt(None, False)
        if _rangeish(deref(a0)):
            if isinstance(a0, Ref) and name in ("next", "next_back"):
                raise Unsupported("in-place iteration of a Range struct")
            a0 = deref(a0)
        itr = into_iter(deref(a0) if isinstance(deref(a0), IterBase) else a0)
        if name == "rev":
            return RevIter(itr)
        if name == "zip":
            return ZipIter(itr, into_iter(args[1]))
        if name == "chain":
            return ChainIter(itr, into_iter(args[1]))
        if name == "map":
            return MapIter(itr, args[1])
        if name == "cloned" or name == "copied":
            return ClonedIter(itr)
        if name == "skip":
            return SkipIter(itr, args[1])
        if name == "take":
            return TakeIter(itr, args[1])
        if name == "scan":
            from interp import ScanIter
            return ScanIter(itr, args[1], args[2])
        if name in ("filter", "filter_map", "take_while", "skip_while", "inspect", "map_while"):
            from interp import FilterIter
            return FilterIter(itr, args[1], name)
        if name == "peekable":
            from interp import PeekIter
            return PeekIter(itr)
        if name in ("flat_map", "flatten"):
            from interp import FlatIter
            return FlatIter(itr, args[1] if name == "flat_map" else None)
        if name == "cycle":
            from interp import CycleIter
            return CycleIter(itr)
        if name in ("sum", "product"):
            acc = None
            ty = re.search(r"::(?:sum|product)::<(\w+)>", c)
            is_int = ty is not None and ty.group(1) in ("usize", "u64", "i64", "u32", "i32")
            # <f64 as Sum>::sum folds from -0.0 (so that an empty sum of floats is -0.0), Product from 1.0
            acc = (0 if name == "sum" else 1) if is_int else dom.const(-0.0 if name == "sum" else 1.0)
            while True:
                x = itr.next(it)
                if x is None:
                    break
                x = deref(x)
                if is_int:
                    acc = acc + x if name == "sum" else acc * x
                else:
                    acc = dom.add(acc, x) if name == "sum" else dom.mul(acc, x)
            return acc
        if name in ("min_by", "max_by"):
            from interp import Cell as _Cell
            cl = _Cell(args[1])
            best = None
            while True:
                x = itr.next(it)
                if x is None:
                    break
                if best is None:
                    best = x
                    continue
                o = it.call_closure(cl, [Ref(_Cell(best)), Ref(_Cell(x))])  # compare(best, x)
                if not isinstance(o, EnumVal):
                    raise Unsupported("min_by/max_by comparator returned %r" % (o,))
                # std: max_by keeps the LAST of equal maxima, min_by the FIRST of equal minima
                d_ = ord_disc(it, o)
                if name == "max_by" and d_ <= 0:
                    best = x
                if name == "min_by" and d_ > 0:
                    best = x
            return Opt(best, True) if best is not None else Opt(None, False)
        if name == "reduce":
            from interp import Cell as _Cell
            cl = _Cell(args[1])
            acc = itr.next(it)
            if acc is None:
                return Opt(None, False)
            while True:
                x = itr.next(it)
                if x is None:
                    break
                acc = it.call_closure(cl, [acc, x])
            return Opt(acc, True)
        if name == "try_for_each":
            from interp import Cell as _Cell
            cl = _Cell(args[1])
            kind = None
            while True:
                x = itr.next(it)
                if x is None:
                    break
                r = it.call_closure(cl, [x])
                if isinstance(r, Opt):
                    kind = "opt"
                    if not r.some:
                        return r
                elif isinstance(r, ResV):
                    kind = "res"
                    if not r.ok:
                        return r
                else:
                    raise Unsupported("try_for_each closure returned %r" % (r,))
            if kind is None:
                kind = "opt" if re.search(r"Option<", c.split("try_for_each", 1)[1]) else "res"
            return Opt(UNIT, True) if kind == "opt" else ResV(True, UNIT)
        if name == "try_fold":
            from interp import Cell as _Cell
            cl = _Cell(args[2])
            acc = args[1]
            kind = None
            while True:
                x = itr.next(it)
                if x is None:
                    break
                r = it.call_closure(cl, [acc, x])
                if isinstance(r, Opt):
                    kind = "opt"
                    if not r.some:
                        return r
                    acc = r.fields[0]
                elif isinstance(r, ResV):
                    kind = "res"
                    if not r.ok:
                        return r
                    acc = r.fields[0]
                else:
                    raise Unsupported("try_fold closure returned %r" % (r,))
            if kind is None:
                kind = "res" if re.search(r"Result<", c.split("try_fold", 1)[1]) else "opt"
            return Opt(acc, True) if kind == "opt" else ResV(True, acc)
        if name == "unzip":
            la, lb = [], []
            while True:
                x = itr.next(it)
                if x is None:
                    break
                la.append(x.fields[0])
                lb.append(x.fields[1])
            return Tuple([VecV(la), VecV(lb)])
        if name == "rposition":
            from interp import Cell as _Cell
            cl = _Cell(args[1])
            items = []
            while True:
                x = itr.next(it)
                if x is None:
                    break
                items.append(x)
            for i in range(len(items) - 1, -1, -1):
                if it.decide(it.call_closure(cl, [items[i]])):
                    return Opt(i, True)
            return Opt(None, False)
        if name == "eq":
            other = into_iter(args[1])
            while True:
                x, y = itr.next(it), other.next(it)
                if x is None or y is None:
                    return x is None and y is None
                if not it.decide(dom.cmp("Eq", deref(x), deref(y))):
                    return False
        if name == "step_by":
            from interp import StepByIter
            if not isinstance(args[1], int) or args[1] <= 0:
                raise Panic("step_by(0)")
            return StepByIter(itr, args[1])
        if name == "len":
            r = remaining_len(itr)
            if r is None:
                raise Unsupported("len of an iterator of unknown length")
            return r
        if name == "next_back":
            x = itr.next_back(it)
            return Opt(x, True) if x is not None else Opt(None, False)
        if name == "last":
            last = None
            while True:
                x = itr.next(it)
                if x is None:
                    break
                last = x
            return Opt(last, True) if last is not None else Opt(None, False)
        if name == "nth":
            x = None
            for _ in range(args[1] + 1):
                x = itr.next(it)
                if x is None:
                    return Opt(None, False)
            return Opt(x, True)
        if name == "enumerate":
            return EnumerateIter(itr)
        if name == "collect":
            into_result = re.search(r"::collect::<(?:std::result::)?Result<", c) is not None
            out = []
            while True:
                x = itr.next(it)
                if x is None:
                    break
                if into_result:
                    if not isinstance(x, ResV):
                        raise Unsupported("collect::<Result<..>> over non-Result items")
                    if not x.ok:
                        return ResV(False, x.fields[0])
                    x = x.fields[0]
                out.append(x)
            return ResV(True, VecV(out)) if into_result else VecV(out)
        if name == "for_each":
            from interp import Cell as _Cell
            cl = _Cell(args[1])
            while True:
                x = itr.next(it)
                if x is None:
                    break
                it.call_closure(cl, [x])
            return UNIT
        if name == "fold":
            from interp import Cell as _Cell
            cl = _Cell(args[2])
            acc = args[1]
            while True:
                x = itr.next(it)
                if x is None:
                    break
                acc = it.call_closure(cl, [acc, x])
            return acc
        if name == "count":
            n = 0
            while itr.next(it) is not None:
                n += 1
            return n
        if name in ("position", "find_map", "any", "all", "find"):
            from interp import Cell as _Cell
            cl = _Cell(args[1])
            i = 0
            while True:
                x = itr.next(it)
                if x is None:
                    break
                r = it.call_closure(cl, [x] if name != "find" else [Ref(_Cell(x))])
                if name == "find_map":
                    if r.some:
                        return r
                else:
                    hit = it.decide(r)
                    if name == "position" and hit:
                        return Opt(i, True)
                    if name == "find" and hit:
                        return Opt(x, True)
                    if name == "any" and hit:
                        return True
                    if name == "all" and not hit:
                        return False
                i += 1
            return {"position": Opt(None, False), "find_map": Opt(None, False), "find": Opt(None, False), "any": False, "all": True}[name]
        raise Unsupported("iterator method " + name)
    m = re.match(r"^(?:std::iter::|core::iter::)?Peekable::<.*>::(peek|peek_mut|next_if)(?:::<.*>)?$", c, re.S)
    if m:
        from interp import PeekIter, Cell as _Cell
        pk = deref(args[0])
        if not isinstance(pk, PeekIter):
            raise Unsupported("peek on %r" % (pk,))
        used("Peekable::" + m.group(1))
        x = pk.peek(it)
        if m.group(1) in ("peek", "peek_mut"):
            return Opt(Ref(_Cell(x)), True) if x is not None else Opt(None, False)
        if x is not None and it.decide(it.call_closure(args[1], [Ref(_Cell(x))])):
            return Opt(pk.next(it), True)
        return Opt(None, False)
    m = re.match(r"^(?:std::iter::|core::iter::)?(from_fn|successors|repeat|repeat_with)::<.*>$", c, re.S)
    if m:
        from interp import FnIter
        used("iter::" + m.group(1))
        k = m.group(1)
        if k == "repeat":
            return FnIter("repeat", state=args[0])
        if k in ("from_fn", "repeat_with"):
            return FnIter(k, closure=args[0])
        return FnIter("successors", closure=args[1], state=args[0])
    if re.match(r"^(?:std::iter::|core::iter::)?once::<.*>$", c):
        used("iter::once")
        return OnceIter(args[0])
    # ---- approx: base relations on f64 are uninterpreted predicates; arrays / slices are element-wise conjunctions
    m = re.match(r"^<(.*) as (?:approx::)?(AbsDiffEq|RelativeEq)(?:<.*>)?>::(abs_diff_eq|relative_eq|default_epsilon|default_max_relative)$", c, re.S)
    if m:
        selfty, name = m.group(1).strip(), m.group(3)
        if name in ("default_epsilon", "default_max_relative") and selfty == "f64":
            used("approx::" + name)
            return dom.const(2.220446049250313e-16)
        if name in ("abs_diff_eq", "relative_eq"):
            a, b = args[0], args[1]
            va, vb = deref(a), deref(b)
            extra = [deref(x) for x in args[2:]]
            if isinstance(va, Num) and isinstance(vb, Num):
                used("approx f64::" + name + " (uninterpreted base relation)")
                return approx_base(dom, name, va, vb, extra)
            if isinstance(va, (Array, VecV)) or isinstance(a, SliceRef):
                used("approx [T]::" + name + " (length check + element-wise conjunction)")
                sa, sb = as_slice(a), as_slice(b)
                if len(sa) != len(sb):
                    return False
                acc = True
                for i in range(len(sa)):
                    ra, rb = elem_ref(sa, i), elem_ref(sb, i)
                    ea, eb = deref(ra), deref(rb)
                    if isinstance(ea, Num):
                        r = approx_base(dom, name, ea, eb, extra)
                    else:
                        f = it.p.find_method(name, [ra, rb] + list(args[2:]))
                        if f is None:
                            raise Unsupported("no crate impl of %s for slice element" % name)
                        r = it.call_function(f, [ra, rb] + list(args[2:]))
                    # `all` short-circuits: later elements are not evaluated once one is false
                    if isinstance(r, bool):
                        if not r:
                            return False
                        continue
                    if not it.decide(r):
                        return False
                return True
    # ---- Default for f64 / arrays of f64
    if re.match(r"^<f64 as Default>::default$", c):
        return dom.const(0.0)
    return NOT_BUILTIN
