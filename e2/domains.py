"""Number domains for the MIR interpreter.

FPDomain   -- bit-precise binary64 (z3 QF_FP, RNE); mul_add = fp.fma; ln/exp uninterpreted.
RealDomain -- real arithmetic; with delta=True every rounded operation gets a fresh relative
              error variable |d| <= 2^-53 (standard model, sound absent overflow/underflow);
              with delta=False it is the exact-arithmetic meaning of the code.
Concrete operands are folded in Python (IEEE double for FP and Real/delta, exact rationals for
Real/exact), so constants such as `1.0 / 24.0` carry no rounding variable.
"""
import math
import struct
from fractions import Fraction

import z3

U = Fraction(1, 2 ** 53)


def f2bits(x):
    return struct.unpack("<Q", struct.pack("<d", x))[0]


def bits2f(b):
    return struct.unpack("<d", struct.pack("<Q", b & 0xFFFFFFFFFFFFFFFF))[0]


def py_div(a, b):
    try:
        return a / b
    except ZeroDivisionError:
        if a != a or a == 0.0:
            return float("nan")
        neg = (math.copysign(1.0, a) < 0) != (math.copysign(1.0, b) < 0)
        return float("-inf") if neg else float("inf")


def py_fma(a, b, c):
    """Correctly rounded a*b+c on doubles (no math.fma before Python 3.13)."""
    if any(math.isnan(v) or math.isinf(v) for v in (a, b, c)):
        try:
            return a * b + c
        except Exception:
            return float("nan")
    exact = Fraction(a) * Fraction(b) + Fraction(c)
    if exact == 0:
        prod_neg = (math.copysign(1.0, a) < 0) != (math.copysign(1.0, b) < 0)
        if (a == 0.0 or b == 0.0) and c == 0.0:
            c_neg = math.copysign(1.0, c) < 0
            return -0.0 if (prod_neg and c_neg) else 0.0
        if (a == 0.0 or b == 0.0):
            return c
        return 0.0
    try:
        return float(exact)
    except OverflowError:
        return float("-inf") if exact < 0 else float("inf")


class Num:
    """A float value: `t` is the domain term (lazily built), `conc` a concrete value if known."""
    __slots__ = ("dom", "_t", "conc")

    def __init__(self, dom, t=None, conc=None):
        self.dom, self._t, self.conc = dom, t, conc

    @property
    def t(self):
        if self._t is None:
            self._t = self.dom.lift(self.conc)
        return self._t

    def __repr__(self):
        return "Num(%s)" % (self.conc if self.conc is not None else self._t)


class Domain:
    name = "?"

    def __init__(self):
        self.counter = 0
        self.deltas = []  # z3 consts
        self.side = []  # z3 constraints that define fresh symbols (quotients, ...)
        self.nonzero = []  # divisors (terms) assumed non-zero by the quotient encoding
        self.nonzero_side_index = []  # nonzero[k] is the divisor of the quotient defined by side[nonzero_side_index[k]]

    def reset(self):
        self.counter = 0
        self.deltas = []
        self.side = []
        self.nonzero = []
        self.nonzero_side_index = []

    def fresh(self, prefix):
        self.counter += 1
        return "%s!%d" % (prefix, self.counter)

    def const(self, f):
        return Num(self, None, self.conv(f))


CONCRETE_UNARY = {
    "ln_1p": math.log1p, "exp_m1": math.expm1, "sqrt": math.sqrt, "log2": math.log2, "log10": math.log10,
    "sin": math.sin, "cos": math.cos, "tan": math.tan, "tanh": math.tanh, "sinh": math.sinh, "cosh": math.cosh,
    "cbrt": lambda x: math.copysign(abs(x) ** (1.0 / 3.0), x), "exp2": lambda x: 2.0 ** x,
}


def concrete_unary(name, x):
    try:
        return CONCRETE_UNARY[name](x)
    except (ValueError, OverflowError):
        if name in ("ln_1p",) and x == -1.0:
            return float("-inf")
        return float("nan")


class FPDomain(Domain):
    name = "FP"

    def __init__(self):
        super().__init__()
        self.sort = z3.Float64()
        self.rm = z3.RNE()
        self.ln_f = z3.Function("ln_f64", self.sort, self.sort)
        self.exp_f = z3.Function("exp_f64", self.sort, self.sort)

    def conv(self, f):
        return float(f)

    def lift(self, c):
        if c != c:
            return z3.fpNaN(self.sort)
        if math.isinf(c):
            return z3.fpMinusInfinity(self.sort) if c < 0 else z3.fpPlusInfinity(self.sort)
        if c == 0.0:
            return z3.fpMinusZero(self.sort) if math.copysign(1.0, c) < 0 else z3.fpPlusZero(self.sort)
        return z3.fpBVToFP(z3.BitVecVal(f2bits(c), 64), self.sort)

    def sym(self, name):
        return Num(self, z3.FP(name, self.sort))

    def _bin(self, a, b, pyop, zop):
        if a.conc is not None and b.conc is not None:
            return Num(self, None, pyop(a.conc, b.conc))
        return Num(self, zop(self.rm, a.t, b.t))

    def add(self, a, b):
        return self._bin(a, b, lambda x, y: x + y, z3.fpAdd)

    def sub(self, a, b):
        return self._bin(a, b, lambda x, y: x - y, z3.fpSub)

    def mul(self, a, b):
        return self._bin(a, b, lambda x, y: x * y, z3.fpMul)

    def div(self, a, b):
        return self._bin(a, b, py_div, z3.fpDiv)

    def neg(self, a):
        if a.conc is not None:
            return Num(self, None, -a.conc)
        return Num(self, z3.fpNeg(a.t))

    def abs(self, a):
        if a.conc is not None:
            return Num(self, None, abs(a.conc))
        return Num(self, z3.fpAbs(a.t))

    def fma(self, a, b, c):
        if a.conc is not None and b.conc is not None and c.conc is not None:
            return Num(self, None, py_fma(a.conc, b.conc, c.conc))
        return Num(self, z3.fpFMA(self.rm, a.t, b.t, c.t))

    def recip(self, a):
        return self.div(self.const(1.0), a)

    def max(self, a, b):
        # Rust f64::max: NaN-ignoring; the sign of max(+0,-0) is unspecified (callers compare with fpEQ)
        if a.conc is not None and b.conc is not None:
            if a.conc != a.conc:
                return b
            if b.conc != b.conc:
                return a
            return a if a.conc >= b.conc else b
        return Num(self, z3.If(z3.fpIsNaN(a.t), b.t, z3.If(z3.fpIsNaN(b.t), a.t,
                                                         z3.If(z3.fpGEQ(a.t, b.t), a.t, b.t))))

    def copysign(self, a, b):
        if a.conc is not None and b.conc is not None:
            return Num(self, None, math.copysign(a.conc, b.conc))
        return Num(self, z3.If(z3.fpIsNegative(b.t), z3.fpNeg(z3.fpAbs(a.t)), z3.fpAbs(a.t)))

    def min(self, a, b):
        if a.conc is not None and b.conc is not None:
            if a.conc != a.conc:
                return b
            if b.conc != b.conc:
                return a
            return a if a.conc <= b.conc else b
        return Num(self, z3.If(z3.fpIsNaN(a.t), b.t, z3.If(z3.fpIsNaN(b.t), a.t, z3.If(z3.fpLEQ(a.t, b.t), a.t, b.t))))

    def ln(self, a):
        if a.conc is not None:
            c = a.conc
            if c != c or c < 0:
                return Num(self, None, float("nan"))
            if c == 0:
                return Num(self, None, float("-inf"))
            return Num(self, None, math.log(c) if not math.isinf(c) else c)
        return Num(self, self.ln_f(a.t))

    def exp(self, a):
        if a.conc is not None:
            try:
                return Num(self, None, math.exp(a.conc))
            except OverflowError:
                return Num(self, None, float("inf"))
        return Num(self, self.exp_f(a.t))

    def unary_uf(self, name, a):
        """any other libm-style unary function: concrete through Python's libm, symbolic as an uninterpreted function"""
        if name not in CONCRETE_UNARY:
            raise ValueError("unknown unary f64 function " + name)
        if a.conc is not None:
            return Num(self, None, concrete_unary(name, a.conc))
        if not hasattr(self, "_ufs"):
            self._ufs = {}
        if name not in self._ufs:
            self._ufs[name] = z3.Function(name + "_f64", self.sort, self.sort)
        return Num(self, self._ufs[name](a.t))

    def cmp(self, op, a, b):
        if a.conc is not None and b.conc is not None:
            x, y = a.conc, b.conc
            return {"Lt": x < y, "Le": x <= y, "Gt": x > y, "Ge": x >= y, "Eq": x == y, "Ne": x != y}[op]
        f = {"Lt": z3.fpLT, "Le": z3.fpLEQ, "Gt": z3.fpGT, "Ge": z3.fpGEQ, "Eq": z3.fpEQ,
             "Ne": lambda p, q: z3.Not(z3.fpEQ(p, q))}[op]
        return f(a.t, b.t)

    # helpers for obligations
    def bit_eq(self, a, b):
        """identical bits (NaNs are all identified by z3's FP theory; obligations exclude NaN)"""
        return a.t == b.t


class RealDomain(Domain):
    def __init__(self, delta, symbolic_const_div=False):
        super().__init__()
        self.delta = delta
        self.symbolic_const_div = symbolic_const_div
        self.named_consts = []  # (z3 const, folded value, exact quotient)
        self.name = "REAL-delta" if delta else "REAL-exact"
        self.ln_f = z3.Function("ln_real", z3.RealSort(), z3.RealSort())
        self.exp_f = z3.Function("exp_real", z3.RealSort(), z3.RealSort())
        self.u = z3.Q(1, 2 ** 53)

    def const(self, f):
        # +-infinity as order-only symbols (used by the control-code encodings, which only compare values): every other
        # value lies between them; callers add `NEG_INF <= v <= POS_INF` for their variables (see ctrl.Kit)
        if isinstance(f, float) and math.isinf(f):
            return Num(self, z3.Real("NEG_INF!" if f < 0 else "POS_INF!"))
        if isinstance(f, float) and f != f:
            # NaN has no real-arithmetic meaning.  Code sometimes uses it as a placeholder that is overwritten before use; it
            # becomes a fresh unconstrained symbol, so a result that really depends on it cannot be proved equal to anything.
            self._nan_k = getattr(self, "_nan_k", 0) + 1
            return Num(self, z3.Real("NAN_PLACEHOLDER!%d" % self._nan_k))
        return Num(self, None, self.conv(f))

    def conv(self, f):
        if isinstance(f, Fraction):
            return f
        if isinstance(f, float) and (f != f or math.isinf(f)):
            raise ValueError("non-finite constant in the real-arithmetic interpretation")
        return Fraction(f)

    def lift(self, c):
        return z3.Q(c.numerator, c.denominator)

    def sym(self, name):
        return Num(self, z3.Real(name))

    def _round(self, exact_term):
        if not self.delta:
            return Num(self, exact_term)
        d = z3.Real(self.fresh("d"))
        self.deltas.append(d)
        return Num(self, exact_term * (1 + d))

    def _fold(self, frac):
        """constant folding: correctly rounded double (delta mode) or exact rational"""
        if self.delta:
            try:
                return Num(self, None, Fraction(float(frac)))
            except OverflowError:
                raise ValueError("constant overflow")
        return Num(self, None, frac)

    def add(self, a, b):
        if a.conc is not None and b.conc is not None:
            return self._fold(a.conc + b.conc)
        if a.conc is not None and a.conc == 0:
            return b
        if b.conc is not None and b.conc == 0:
            return a
        return self._round(a.t + b.t)

    def sub(self, a, b):
        if a.conc is not None and b.conc is not None:
            return self._fold(a.conc - b.conc)
        if b.conc is not None and b.conc == 0:
            return a
        return self._round(a.t - b.t)

    def mul(self, a, b):
        if a.conc is not None and b.conc is not None:
            return self._fold(a.conc * b.conc)
        for p, q in ((a, b), (b, a)):
            if p.conc is not None:
                if p.conc == 1:
                    return q
                if p.conc == -1:
                    return Num(self, -q.t)
                if p.conc == 0:
                    return Num(self, None, Fraction(0))
                # multiplication by a power of two is exact (no overflow/underflow proviso)
                c = abs(p.conc)
                if c.numerator == 1 and (c.denominator & (c.denominator - 1)) == 0 or \
                        c.denominator == 1 and (c.numerator & (c.numerator - 1)) == 0:
                    return Num(self, p.t * q.t)
        return self._round(a.t * b.t)

    def div(self, a, b):
        if a.conc is not None and b.conc is not None:
            if b.conc == 0:
                raise ValueError("constant division by zero")
            if getattr(self, "symbolic_const_div", False):
                # name the constant: K!n stands for the (rounded) quotient; lets rounding bounds be posed per lane
                folded = self._fold(a.conc / b.conc)
                name = z3.Real("K!%d" % len(self.named_consts))
                self.named_consts.append((name, folded.conc, a.conc / b.conc))
                return Num(self, name)
            return self._fold(a.conc / b.conc)
        if b.conc is not None:
            if b.conc == 0:
                raise ValueError("division by constant zero")
            c = abs(b.conc)
            exact_pow2 = (c.numerator == 1 and (c.denominator & (c.denominator - 1)) == 0) or \
                         (c.denominator == 1 and (c.numerator & (c.numerator - 1)) == 0)
            term = a.t * z3.Q(b.conc.denominator, b.conc.numerator)
            return Num(self, term) if exact_pow2 else self._round(term)
        q = z3.Real(self.fresh("q"))
        self.side.append(q * b.t == a.t)
        self.nonzero.append(b.t)
        # side[k] defines the k-th quotient and would make its own divisor non-zero by definition (for a non-zero numerator);
        # "no divisor can vanish" must therefore be posed for divisor k under side[:k] only -- see nonzero_obligation_assumptions
        self.nonzero_side_index.append(len(self.side) - 1)
        return self._round(q)

    def neg(self, a):
        if a.conc is not None:
            return Num(self, None, -a.conc)
        return Num(self, -a.t)

    def abs(self, a):
        if a.conc is not None:
            return Num(self, None, abs(a.conc))
        return Num(self, z3.If(a.t >= 0, a.t, -a.t))

    def fma(self, a, b, c):
        if a.conc is not None and b.conc is not None and c.conc is not None:
            return self._fold(a.conc * b.conc + c.conc)
        if c.conc is not None and c.conc == 0:
            return self.mul(a, b)
        return self._round(a.t * b.t + c.t)

    def recip(self, a):
        return self.div(self.const(1.0), a)

    def max(self, a, b):
        if a.conc is not None and b.conc is not None:
            return a if a.conc >= b.conc else b
        return Num(self, z3.If(a.t >= b.t, a.t, b.t))

    def copysign(self, a, b):
        # (the sign of a zero b is not representable in the reals: taken as positive)
        if a.conc is not None and b.conc is not None:
            return Num(self, None, abs(a.conc) if b.conc >= 0 else -abs(a.conc))
        aa = z3.If(a.t >= 0, a.t, -a.t)
        return Num(self, z3.If(b.t < 0, -aa, aa))

    def min(self, a, b):
        if a.conc is not None and b.conc is not None:
            return a if a.conc <= b.conc else b
        return Num(self, z3.If(a.t <= b.t, a.t, b.t))

    def ln(self, a):
        # libm accuracy is outside the claim: ln/exp are uninterpreted real functions
        return Num(self, self.ln_f(a.t))

    def exp(self, a):
        return Num(self, self.exp_f(a.t))

    def cmp(self, op, a, b):
        if a.conc is not None and b.conc is not None:
            x, y = a.conc, b.conc
            return {"Lt": x < y, "Le": x <= y, "Gt": x > y, "Ge": x >= y, "Eq": x == y, "Ne": x != y}[op]
        x, y = a.t, b.t
        return {"Lt": x < y, "Le": x <= y, "Gt": x > y, "Ge": x >= y, "Eq": x == y, "Ne": x != y}[op]

    def unary_uf(self, name, a):
        if name not in CONCRETE_UNARY:
            raise ValueError("unknown unary f64 function " + name)
        if not hasattr(self, "_ufs"):
            self._ufs = {}
        if name not in self._ufs:
            self._ufs[name] = z3.Function(name + "_real", z3.RealSort(), z3.RealSort())
        return Num(self, self._ufs[name](a.t))

    def reset(self):
        super().reset()
        self.named_consts = []

    def delta_bounds(self):
        return [z3.And(d >= -self.u, d <= self.u) for d in self.deltas]
