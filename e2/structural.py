"""Structure-only encodings of the piecewise combinators, from their MIR, at sizes far beyond Kani's.

`Piecewise::{derivative, indefinite, integral, mul, mul_assign, neg, translate}`, the `Segment` counterparts and the two
segment-integration iterators are generic in the piece type: they map / thread a piece-level operation over the segments.
They are executed symbolically on n symbolic segments whose pieces are `Poly0` (for the integrals the result pieces are
`Poly1`), with the PIECE-level operations replaced by uninterpreted functions of the piece's numbers and the operation's
arguments:

    Poly0::derivative(c)            -> Poly0(D(c))
    Poly0 * s, Poly0 *= s           -> Poly0(M(c, s))          (same symbol: `*=` gives exactly the result of `*` is C14's clause)
    -Poly0                          -> Poly0(N(c))
    Poly0::translate(v)             -> Poly0(T(c, v))
    Segment<Poly0>::integral(knot)  -> Segment { end, Poly1([J0(c, end, kx, ky), J1(c, end, kx, ky)]) }
    Segment<Poly0>::indefinite()    -> Segment { end, Poly1([K0(c, end), K1(c, end)]) }
    Poly1::evaluate(x)              -> EV1(c0, c1, x)

so "which piece-level operation was applied to which piece with which arguments, in which order, and what happened to the
breakpoints" is decided by congruence: the expected result is written with the same symbols straight from the property
(map over the pieces; for integrals the running knot (end_i, EV1(F_i, end_i))) and z3 decides equality of every number.
The piece-level operations themselves are the subject of C07/C08/C14 and are decided there on the real kernels.
"""
import time
import z3

import api
from ctrl import solver_feasible
from domains import FPDomain, Num
from interp import Array, Cell, Interp, Ref, SliceRef, Struct, VecV, Unsupported, UNIT, read_path, write_path, VecIntoIter

F64 = z3.Float64()


def uf(name, arity):
    return z3.Function(name, *([F64] * (arity + 1)))


D = uf("PIECE_derivative", 1)
M = uf("PIECE_mul", 2)
N = uf("PIECE_neg", 1)
T = uf("PIECE_translate", 2)
J0, J1 = uf("SEG_integral_c0", 4), uf("SEG_integral_c1", 4)
K0, K1 = uf("SEG_indefinite_c0", 2), uf("SEG_indefinite_c1", 2)
EV1 = uf("PIECE_evaluate1", 3)


def _deref(v):
    while isinstance(v, Ref):
        v = read_path(v.cell, v.path)
    return v


def install_stubs(it, dom):
    def is_struct(arg, name):
        v = _deref(arg)
        return isinstance(v, Struct) and v.name == name

    def mk(pred_name, suffix, arg0, handler):
        def pred(f, args):
            return f.name.endswith(suffix) and len(args) >= 1 and is_struct(args[0], arg0)
        pred.__name__ = pred_name
        it.stub_preds.append((pred, handler))

    def num(t):
        return Num(dom, t)

    mk("Poly0::derivative -> D(c)", "::derivative", "Poly0",
       lambda itp, a: Struct("Poly0", [num(D(_deref(a[0]).fields[0].t))]))
    mk("Poly0 * s -> M(c, s)", "::mul", "Poly0",
       lambda itp, a: Struct("Poly0", [num(M(_deref(a[0]).fields[0].t, _deref(a[1]).t))]))

    def mul_assign(itp, a):
        r = a[0]
        # `&mut &mut Poly0` is possible through the `&mut Segment` impl: write through to the value
        while isinstance(read_path(r.cell, r.path), Ref):
            r = read_path(r.cell, r.path)
        cur = read_path(r.cell, r.path)
        write_path(r.cell, r.path, Struct("Poly0", [num(M(cur.fields[0].t, _deref(a[1]).t))]))
        return UNIT
    mk("Poly0 *= s -> M(c, s)", "::mul_assign", "Poly0", mul_assign)
    mk("-Poly0 -> N(c)", "::neg", "Poly0", lambda itp, a: Struct("Poly0", [num(N(_deref(a[0]).fields[0].t))]))

    def translate(itp, a):
        r = a[0]
        while isinstance(read_path(r.cell, r.path), Ref):
            r = read_path(r.cell, r.path)
        cur = read_path(r.cell, r.path)
        write_path(r.cell, r.path, Struct("Poly0", [num(T(cur.fields[0].t, _deref(a[1]).t))]))
        return UNIT
    mk("Poly0::translate(v) -> T(c, v)", "::translate", "Poly0", translate)

    def seg_integral(itp, a):
        s = _deref(a[0])
        if not (isinstance(s.fields[1], Struct) and s.fields[1].name == "Poly0"):
            raise Unsupported("segment integral stub on %r" % (s,))
        k = _deref(a[1])
        e_, c, kx, ky = s.fields[0].t, s.fields[1].fields[0].t, k.fields[0].t, k.fields[1].t
        return Struct("Segment", [num(e_), Struct("Poly1", [Array([num(J0(c, e_, kx, ky)), num(J1(c, e_, kx, ky))])])])

    def pred_si(f, args):
        return f.name.endswith("::integral") and len(args) == 2 and is_struct(args[0], "Segment")
    pred_si.__name__ = "Segment<Poly0>::integral(knot) -> Segment{end, Poly1[J0, J1](c, end, knot)}"
    it.stub_preds.append((pred_si, seg_integral))

    def seg_indef(itp, a):
        s = _deref(a[0])
        e_, c = s.fields[0].t, s.fields[1].fields[0].t
        return Struct("Segment", [num(e_), Struct("Poly1", [Array([num(K0(c, e_)), num(K1(c, e_))])])])

    def pred_sd(f, args):
        return f.name.endswith("::indefinite") and len(args) == 1 and is_struct(args[0], "Segment")
    pred_sd.__name__ = "Segment<Poly0>::indefinite() -> Segment{end, Poly1[K0, K1](c, end)}"
    it.stub_preds.append((pred_sd, seg_indef))

    def ev1(itp, a):
        p = _deref(a[0])
        c0, c1 = p.fields[0].fields
        return num(EV1(c0.t, c1.t, _deref(a[1]).t))
    mk("Poly1::evaluate(x) -> EV1(c0, c1, x)", "::evaluate", "Poly1", ev1)


def sym(name):
    return z3.FP(name, F64)


def expected(op, n, ends, cs, s=None, kx=None, ky=None):
    """the property's statement, written with the same symbols: list of numbers of the result"""
    out = []
    if op == "deriv":
        for e_, c in zip(ends, cs):
            out += [e_, D(c)]
    elif op in ("mul", "mulassign"):
        for e_, c in zip(ends, cs):
            out += [e_, M(c, s)]
    elif op == "neg":
        for e_, c in zip(ends, cs):
            out += [e_, N(c)]
    elif op == "translate":
        for e_, c in zip(ends, cs):
            out += [e_, T(c, s)]
    elif op in ("integ", "iter", "iterref", "indef"):
        x, y = kx, ky
        for i, (e_, c) in enumerate(zip(ends, cs)):
            if op == "indef" and i == 0:
                c0, c1 = K0(c, e_), K1(c, e_)
            else:
                c0, c1 = J0(c, e_, x, y), J1(c, e_, x, y)
            out += [e_, c0, c1]
            x, y = e_, EV1(c0, c1, e_)
    else:
        raise ValueError(op)
    return out


def run(e, op, n, segment_level=False):
    """-> (paths, expected numbers, symbols).  Each path's result is the flat list of result numbers (or None on panic)."""
    dom = FPDomain()
    it = Interp(e.program, dom, max_paths=64)
    it.deadline = time.time() + (120 if getattr(e, "tier", "quick") == "quick" else 600)
    install_stubs(it, dom)
    ends = [sym("e%d" % i) for i in range(n)]
    cs = [sym("c%d" % i) for i in range(n)]
    s, kx, ky = sym("s"), sym("kx"), sym("ky")
    ty = "SP0" if segment_level else "W%d:P0" % n

    def nums():
        out = []
        for i in range(n):
            out += [dom.sym("e%d" % i), dom.sym("c%d" % i)]
        return out

    def body(itp):
        v = nums()
        if op in ("iter", "iterref"):
            segs = [Struct("Segment", [v[2 * i], Struct("Poly0", [v[2 * i + 1]])]) for i in range(n)]
            knot = Struct("Knot", [dom.sym("kx"), dom.sym("ky")])
            cands = [f for f in e.program.funcs if f.name.endswith("::integral_iter_ref" if op == "iterref" else "::integral_iter")
                     and "{closure" not in f.name]
            if len(cands) != 1:
                raise Unsupported("%s: %d candidates" % (op, len(cands)))
            if op == "iterref":
                cell = Cell(VecV(segs))
                src = SliceRef(cell, (), 0, n)
            else:
                src = VecV(segs)
            from interp import into_iter
            itr = into_iter(itp.call_function(cands[0], [src, knot]))
            out = []
            for _ in range(n + 1):
                x = itr.next(itp)
                if x is None:
                    break
                out.append(x)
            else:
                raise Unsupported("iterator yields more than n items")
            return api.flat(Struct("Piecewise", [VecV(out)])), len(out)
        extra = []
        if op in ("mul", "mulassign", "translate"):
            extra = [dom.sym("s")]
        elif op == "integ":
            extra = [dom.sym("kx"), dom.sym("ky")]
        fn, args, post = api.build_call(e.program, op, ty, v + extra)
        r = post(itp.call_function(fn, args))
        if segment_level:
            return api.flat(r), 1
        segs = r.fields[0].fields
        return api.flat(r), len(segs)
    paths = it.explore_body(body, feasible=solver_feasible([]))
    e.rep.functions.update(it.functions_run)
    exp = expected("integ" if op in ("iter", "iterref") else op, n, ends, cs, s, kx, ky)
    return paths, exp, {"ends": ends, "cs": cs, "s": s, "kx": kx, "ky": ky}, sorted(it.stubs_used)
