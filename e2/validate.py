"""Translator validation (Serval practice): the MIR interpreter must reproduce the native crate
bit for bit on concrete inputs -- both with concrete folding and through the symbolic FP term
(inputs substituted afterwards, z3 evaluates the term).  A mismatch means the encoder is
wrong: the check stops with exit 2 and says nothing about the property.
"""
import math
import random

import z3

import api
from domains import FPDomain, Num, f2bits, bits2f, CONCRETE_UNARY, concrete_unary
from common import Obligation, log
from interp import Unsupported


def same_bits(a, b):
    if isinstance(a, float) and isinstance(b, float):
        if a != a and b != b:
            return True
        return f2bits(a) == f2bits(b)
    return a == b


def test_inputs(seed, n_rand, arity, positive_idx=()):
    """The repo's own test style (small positive integers 2,3,4,.., x=3 / 17 / 7) plus seeded random values."""
    rnd = random.Random(seed)
    cases = []
    base = [float(i + 2) for i in range(arity)]
    for last in (3.0, 17.0, 7.0, 1.0):
        c = list(base)
        c[-1] = last
        cases.append(c)
    for _ in range(n_rand):
        c = []
        for i in range(arity):
            kind = rnd.random()
            if kind < 0.3:
                v = float(rnd.randint(-5, 5))
            elif kind < 0.8:
                v = rnd.uniform(-4, 4)
            else:
                v = rnd.uniform(-1, 1) * 10 ** rnd.randint(-6, 6)
            if i in positive_idx:
                v = abs(v) + 1e-3
            c.append(v)
        cases.append(c)
    return cases


def validate(e, specs, seed=0, n_rand=6):
    """specs: list of (op, ty, arity, positive_idx).  Adds one Obligation per spec (self-test)."""
    ok_all = True
    total = 0
    for (op, ty, arity, pos) in specs:
        cases = test_inputs(seed, n_rand, arity, pos)
        reqs = [(op, ty, c) for c in cases]
        try:
            native = e.native.run(reqs, "dev")
            native_rel = e.native.run(reqs, "release")
        except Exception as ex:
            e.rep.add(Obligation("selftest:%s:%s" % (op, ty), "E2-selftest", "native oracle runs", "inconclusive",
                                 detail=str(ex)[:300]))
            ok_all = False
            continue
        bad = None
        for c, nat, nat_r in zip(cases, native, native_rel):
            total += 1
            if isinstance(nat, str):
                bad = "native replied %s on %r" % (nat, c)
                break
            if not all(same_bits(a, b) for a, b in zip(nat, nat_r)):
                bad = "dev and release builds of the crate differ on %r" % (c,)
                break
            # (1) concrete folding
            try:
                dom = FPDomain()
                res = api.run(e, dom, op, ty, lambda d: [d.const(v) for v in c])
                got = None
                for (p, nums, _) in res:
                    if p.panic is None and not p.conds:
                        got = [n.conc if n.conc is not None else _eval_fp(n.t) for n in nums]
                if got is None or len(got) != len(nat) or not all(same_bits(a, b) for a, b in zip(got, nat)):
                    bad = "concrete interpretation differs from native on %s %s %r: %r vs %r" % (op, ty, c, got, nat)
                    break
                # (2) symbolic FP term, inputs substituted afterwards
                dom = FPDomain()
                res = api.run(e, dom, op, ty, lambda d: [d.sym("in%d" % i) for i in range(len(c))])
                subs = [(z3.FP("in%d" % i, z3.Float64()), dom.lift(v)) for i, v in enumerate(c)]
                got = None
                for (p, nums, _) in res:
                    if p.panic is not None:
                        continue
                    cond = z3.simplify(z3.substitute(p.cond(), *subs))
                    cond = _resolve_uf(e, dom, cond)
                    if z3.is_true(cond):
                        got = []
                        for n in nums:
                            t = z3.substitute(n.t, *subs)
                            got.append(_eval_fp(_resolve_uf(e, dom, z3.simplify(t))))
                if got is None or len(got) != len(nat) or not all(same_bits(a, b) for a, b in zip(got, nat)):
                    bad = "symbolic FP term differs from native on %s %s %r: %r vs %r" % (op, ty, c, got, nat)
                    break
            except Unsupported as ex:
                bad = "not encodable: %s" % ex
                break
        if bad:
            ok_all = False
            e.rep.add(Obligation("selftest:%s:%s" % (op, ty), "E2-selftest",
                                 "interpreter reproduces the native crate bit for bit", "inconclusive", detail=bad))
        else:
            e.rep.add(Obligation("selftest:%s:%s" % (op, ty), "E2-selftest",
                                 "MIR interpreter (concrete and symbolic-FP) reproduces the native crate (dev and release "
                                 "build) bit for bit on %d inputs (repo test vectors + seeded random)" % len(cases),
                                 "discharged", witness={"sample_input": cases[0], "native_output": native[0]}))
    e.rep.self_tests["translator_validation_cases"] = e.rep.self_tests.get("translator_validation_cases", 0) + total
    return ok_all


def _eval_fp(t):
    t = z3.simplify(t)
    if z3.is_fp_value(t):
        if t.isNaN():
            return float("nan")
        if t.isInf():
            return float("-inf") if t.isNegative() else float("inf")
        return bits2f(z3.simplify(z3.fpToIEEEBV(t)).as_long())
    raise Unsupported("term does not evaluate to a constant: %s" % t.sexpr()[:200])


def _resolve_uf(e, dom, t):
    """Replace applications ln_f64(const) / exp_f64(const) by the native libm value, innermost first."""
    for _ in range(8):
        apps = []

        def walk(x):
            if z3.is_app(x):
                d = x.decl().name()
                if (d in ("ln_f64", "exp_f64") or (d.endswith("_f64") and d[:-4] in CONCRETE_UNARY)) and \
                        x.num_args() == 1 and z3.is_fp_value(z3.simplify(x.arg(0))):
                    apps.append(x)
                    return
                for ch in x.children():
                    walk(ch)
        walk(t)
        if not apps:
            return t
        subs = []
        for a in apps:
            arg = _eval_fp(a.arg(0))
            nm = a.decl().name()
            if nm in ("ln_f64", "exp_f64"):
                val = e.native.run([("ln" if nm == "ln_f64" else "exp", "-", [arg])])[0][0]
            else:
                val = concrete_unary(nm[:-4], arg)  # this machine's libm through Python
            subs.append((a, dom.lift(val)))
        t = z3.simplify(z3.substitute(t, *subs))
    return t
