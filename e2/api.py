"""Uniform access to the crate's API for both the native oracle and the MIR interpreter.

Type tags:  P0..P8, PN<k>, LP<k> = Log<Poly k>, IL<k> = IntOfLog<Poly k>, ILP4 = IntOfLogPoly4,
            S<tag> = Segment<tag>.
Ops:        eval deriv indef integ mul mulassign neg add sub addref subref translate linear spline
"""
import re

import z3

from domains import Num
from interp import Array, Cell, Ref, SliceRef, Struct, Tuple, Unsupported, VecV, UNIT


def type_len(ty):
    m = re.match(r"^W(\d+):(.*)$", ty)
    if m:
        return int(m.group(1)) * (1 + type_len(m.group(2)))
    if ty.startswith("S"):
        return 1 + type_len(ty[1:])
    if ty == "ILP4":
        return 6
    m = re.match(r"^(P|LP|IL|PN)(\d+)$", ty)
    k = int(m.group(2))
    if m.group(1) == "PN":
        return k
    if m.group(1) == "IL":
        return k + 2
    return k + 1


def make_value(ty, nums):
    """nums: list of Num (exactly type_len(ty))."""
    nums = list(nums)
    m = re.match(r"^W(\d+):(.*)$", ty)
    if m:
        n, inner = int(m.group(1)), m.group(2)
        w = 1 + type_len(inner)
        return Struct("Piecewise", [VecV([make_value("S" + inner, nums[i * w:(i + 1) * w]) for i in range(n)])])
    if ty.startswith("S"):
        return Struct("Segment", [nums[0], make_value(ty[1:], nums[1:])])
    if ty == "ILP4":
        return Struct("IntOfLogPoly4", [nums[0], Array(nums[1:5]), nums[5]])
    m = re.match(r"^(P|LP|IL|PN)(\d+)$", ty)
    kind, k = m.group(1), int(m.group(2))
    if kind == "PN":
        return Struct("PolyN", [VecV(nums[:k])])
    if kind == "P":
        if k == 0:
            return Struct("Poly0", [nums[0]])
        return Struct("Poly%d" % k, [Array(nums[:k + 1])])
    if kind == "LP":
        return Struct("Log", [make_value("P%d" % k, nums)])
    if kind == "IL":
        return Struct("IntOfLog", [nums[0], make_value("P%d" % k, nums[1:])])
    raise ValueError(ty)


def flat(v):
    if isinstance(v, Num):
        return [v]
    if hasattr(v, "fields"):
        out = []
        for f in v.fields:
            out.extend(flat(f))
        return out
    return []


METHOD = {"eval": "evaluate", "deriv": "derivative", "indef": "indefinite", "integ": "integral", "mul": "mul",
          "mulassign": "mul_assign", "neg": "neg", "add": "add", "sub": "sub", "addref": "add", "subref": "sub",
          "translate": "translate"}


def build_call(program, op, ty, nums):
    """-> (Function, args, post) where post(result) gives the value whose numbers are the outcome."""
    if op in ("absdiff", "releq"):
        # ty is "A|B": two (possibly differently sized) values of the same Rust type
        ta, tb = ty.split("|") if "|" in ty else (ty, ty)
        na, nb = type_len(ta), type_len(tb)
        va, vb = make_value(ta, nums[:na]), make_value(tb, nums[na:na + nb])
        args = [Ref(Cell(va)), Ref(Cell(vb))] + list(nums[na + nb:])
        fn = program.find_method("abs_diff_eq" if op == "absdiff" else "relative_eq", args)
        if fn is None:
            raise Unsupported("no impl of approx relation for %s" % ty)
        return fn, args, (lambda r: r)
    n = None if op in ("linear", "spline") else type_len(ty)
    if op in ("linear", "spline"):
        ks = [Struct("Knot", [nums[2 * i], nums[2 * i + 1]]) for i in range(len(nums) // 2)]
        cell = Cell(Array(ks))
        fn = program.find("linear" if op == "linear" else "constrained_spline")
        return fn, [SliceRef(cell, (), 0, len(ks))], (lambda r: r)
    val = make_value(ty, nums[:n])
    rest = nums[n:]
    if op == "eval":
        args = [Ref(Cell(val)), rest[0]]
        post = lambda r: r
    elif op in ("deriv", "indef"):
        args = [Ref(Cell(val))]
        post = lambda r: r
    elif op == "integ":
        args = [Ref(Cell(val)), Struct("Knot", [rest[0], rest[1]])]
        post = lambda r: r
    elif op == "mul":
        args = [val, rest[0]]
        post = lambda r: r
    elif op in ("mulassign", "translate"):
        cell = Cell(val)
        args = [Ref(cell), rest[0]]
        post = lambda r, cell=cell: cell.v
    elif op == "neg":
        args = [val]
        post = lambda r: r
    elif op in ("add", "sub"):
        args = [val, make_value(ty, rest[:n])]
        post = lambda r: r
    elif op in ("addref", "subref"):
        args = [Ref(Cell(val)), Ref(Cell(make_value(ty, rest[:n])))]
        post = lambda r: r
    else:
        raise ValueError(op)
    fn = program.find_method(METHOD[op], args)
    if fn is None:
        raise Unsupported("no impl of %s for %s" % (METHOD[op], ty))
    return fn, args, post


class MergedPath:
    """All non-panicking paths of a run folded into one if-then-else result (see run(merge=True))."""

    def __init__(self):
        self.conds = []
        self.decisions = []
        self.side = []
        self.deltas = []
        self.nonzero = []
        self.panic = None
        self.panic_conds = []
        self.calls = []
        self.n_paths = 1

    def cond(self):
        return z3.BoolVal(True)


def _rename_fresh(terms, idx):
    """Fresh symbols (d!k, q!k, K!k) are numbered per run; make them unique per path before merging."""
    from z3 import z3util
    seen = {}
    for t in terms:
        for v in z3util.get_vars(t):
            nm = str(v)
            if nm[:2] in ("d!", "q!", "K!") and nm not in seen:
                seen[nm] = (v, z3.Const("%s!p%d" % (nm, idx), v.sort()))
    subs = list(seen.values())
    return (lambda t: z3.substitute(t, *subs) if subs else t)


def _merge(dom, rows):
    """rows: [(path, [Num], value)] -> (MergedPath, [Num])"""
    ok = [(p, nums) for (p, nums, _) in rows if p.panic is None]
    bad = [p for (p, _, _) in rows if p.panic is not None]
    mp = MergedPath()
    mp.n_paths = len(rows)
    if not ok:
        raise Unsupported("every path panics: %s" % bad[0].panic)
    n = len(ok[0][1])
    if any(len(nums) != n for (_, nums) in ok):
        raise Unsupported("paths return values of different shape")
    if len(ok) == 1 and not bad:
        p, nums = ok[0]
        mp.side, mp.deltas, mp.nonzero, mp.calls = list(p.side), list(p.deltas), list(p.nonzero), list(p.calls)
        return mp, nums
    renamed = []
    for idx, (p, nums) in enumerate(ok):
        terms = [x.t for x in nums] + list(p.conds) + list(p.side) + list(p.deltas) + list(p.nonzero)
        rn = _rename_fresh(terms, idx)
        cond = z3.And(*[rn(c) for c in p.conds]) if p.conds else z3.BoolVal(True)
        renamed.append((cond, [rn(x.t) for x in nums]))
        mp.side += [z3.Implies(cond, rn(sd)) for sd in p.side]
        mp.deltas += [rn(d) for d in p.deltas]
        mp.nonzero += [z3.If(cond, rn(dv), z3.RealVal(1)) for dv in p.nonzero]
        mp.calls = sorted(set(mp.calls) | set(p.calls))
    out = []
    for i in range(n):
        term = renamed[-1][1][i]
        for cond, vals in reversed(renamed[:-1]):
            term = z3.If(cond, vals[i], term)
        out.append(Num(dom, term))
    for idx, p in enumerate(bad):
        rn = _rename_fresh(list(p.conds) + list(p.side), 1000 + idx)
        mp.panic_conds.append((z3.And(*[rn(c) for c in p.conds] + [rn(sd) for sd in p.side]) if p.conds or p.side else z3.BoolVal(True),
                               p.panic))
    return mp, out


def run(e, dom, op, ty, make_nums, max_paths=64, stubs=None, merge=True, label=None):
    """make_nums(dom) -> list of Num.
    merge=True (default): returns ONE row [(MergedPath, [Num], None)] in which every output number is an if-then-else
    over the path conditions of all non-panicking paths, so that obligations automatically cover every branch the code
    takes (a data-dependent special case added to a kernel is part of the term).  Reachable panicking paths become a
    'no panic' obligation.  merge=False: one row (path, [Num] flattened outcome, raw value) per path."""
    from interp import Interp
    it = Interp(e.program, dom, max_paths=max_paths, stubs=stubs)
    dom.reset()
    fn, _, _ = build_call(e.program, op, ty, make_nums(dom))
    posts = []

    def mk2(d):
        nums = make_nums(d)
        f2, args, post = build_call(e.program, op, ty, nums)
        posts.append(post)
        return args

    paths = it.explore(fn, mk2)
    out = []
    for p, post in zip(paths, posts):
        if p.panic is not None:
            out.append((p, None, None))
        else:
            v = post(p.result)
            out.append((p, flat(v), v))
    e.rep.functions.update(it.functions_run)
    if not merge:
        return out
    mp, nums = _merge(dom, out)
    if mp.panic_conds and hasattr(e, "prove"):
        for k, (pc, msg) in enumerate(mp.panic_conds):
            e.prove("%s:%s:%s:no-panic-%d" % (label or "run", op, ty, k),
                    "no input reaches the panicking path of %s on %s (%s)" % (op, ty, msg), [], z3.Not(pc),
                    dom_name=getattr(dom, "name", "?").lower(), functions=sorted(it.functions_run)[:4], role="kernel-panic")
    return [(mp, nums, None)]


def run_fn(e, dom, fn_name, make_args, stubs=None, label=None, max_paths=64):
    """Explore a free function (by path suffix) and merge its paths like run(merge=True). Returns (MergedPath, [Num])."""
    from interp import Interp
    it = Interp(e.program, dom, max_paths=max_paths, stubs=stubs)
    fn = e.program.find(fn_name)
    paths = it.explore(fn, make_args)
    rows = [(p, None if p.panic is not None else flat(p.result), None) for p in paths]
    e.rep.functions.update(it.functions_run)
    mp, nums = _merge(dom, rows)
    if mp.panic_conds and hasattr(e, "prove"):
        for k, (pc, msg) in enumerate(mp.panic_conds):
            e.prove("%s:%s:no-panic-%d" % (label or "run", fn_name, k), "no input reaches the panicking path of %s (%s)" % (fn_name, msg),
                    [], z3.Not(pc), dom_name=getattr(dom, "name", "?").lower(), functions=[fn_name], role="kernel-panic")
    return mp, nums
