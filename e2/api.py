"""Uniform access to the crate's API for both the native oracle and the MIR interpreter.

Type tags:  P0..P8, PN<k>, LP<k> = Log<Poly k>, IL<k> = IntOfLog<Poly k>, ILP4 = IntOfLogPoly4,
            S<tag> = Segment<tag>.
Ops:        eval deriv indef integ mul mulassign neg add sub addref subref translate linear spline
"""
import re

import z3

from domains import Num
from interp import Array, Cell, Ref, SliceRef, Struct, Tuple, Unsupported, VecV, UNIT


def type_len(ty):
    m = re.match(r"^W(\d+):(.*)$", ty)
    if m:
        return int(m.group(1)) * (1 + type_len(m.group(2)))
    if ty.startswith("S"):
        return 1 + type_len(ty[1:])
    if ty == "ILP4":
        return 6
    m = re.match(r"^(P|LP|IL|PN)(\d+)$", ty)
    k = int(m.group(2))
    if m.group(1) == "PN":
        return k
    if m.group(1) == "IL":
        return k + 2
    return k + 1


def make_value(ty, nums):
    """nums: list of Num (exactly type_len(ty))."""
    nums = list(nums)
    m = re.match(r"^W(\d+):(.*)$", ty)
    if m:
        n, inner = int(m.group(1)), m.group(2)
        w = 1 + type_len(inner)
        return Struct("Piecewise", [VecV([make_value("S" + inner, nums[i * w:(i + 1) * w]) for i in range(n)])])
    if ty.startswith("S"):
        return Struct("Segment", [nums[0], make_value(ty[1:], nums[1:])])
    if ty == "ILP4":
        return Struct("IntOfLogPoly4", [nums[0], Array(nums[1:5]), nums[5]])
    m = re.match(r"^(P|LP|IL|PN)(\d+)$", ty)
    kind, k = m.group(1), int(m.group(2))
    if kind == "PN":
        return Struct("PolyN", [VecV(nums[:k])])
    if kind == "P":
        if k == 0:
            return Struct("Poly0", [nums[0]])
        return Struct("Poly%d" % k, [Array(nums[:k + 1])])
    if kind == "LP":
        return Struct("Log", [make_value("P%d" % k, nums)])
    if kind == "IL":
        return Struct("IntOfLog", [nums[0], make_value("P%d" % k, nums[1:])])
    raise ValueError(ty)


def flat(v):
    if isinstance(v, Num):
        return [v]
    if hasattr(v, "fields"):
        out = []
        for f in v.fields:
            out.extend(flat(f))
        return out
    return []


METHOD = {"eval": "evaluate", "deriv": "derivative", "indef": "indefinite", "integ": "integral", "mul": "mul",
          "mulassign": "mul_assign", "neg": "neg", "add": "add", "sub": "sub", "addref": "add", "subref": "sub",
          "translate": "translate"}


def build_call(program, op, ty, nums):
    """-> (Function, args, post) where post(result) gives the value whose numbers are the outcome."""
    if op in ("absdiff", "releq"):
        # ty is "A|B": two (possibly differently sized) values of the same Rust type
        ta, tb = ty.split("|") if "|" in ty else (ty, ty)
        na, nb = type_len(ta), type_len(tb)
        va, vb = make_value(ta, nums[:na]), make_value(tb, nums[na:na + nb])
        args = [Ref(Cell(va)), Ref(Cell(vb))] + list(nums[na + nb:])
        fn = program.find_method("abs_diff_eq" if op == "absdiff" else "relative_eq", args)
        if fn is None:
            raise Unsupported("no impl of approx relation for %s" % ty)
        return fn, args, (lambda r: r)
    n = None if op in ("linear", "spline") else type_len(ty)
    if op in ("linear", "spline"):
        ks = [Struct("Knot", [nums[2 * i], nums[2 * i + 1]]) for i in range(len(nums) // 2)]
        cell = Cell(Array(ks))
        fn = program.find("linear" if op == "linear" else "constrained_spline")
        return fn, [SliceRef(cell, (), 0, len(ks))], (lambda r: r)
    val = make_value(ty, nums[:n])
    rest = nums[n:]
    if op == "eval":
        args = [Ref(Cell(val)), rest[0]]
        post = lambda r: r
    elif op in ("deriv", "indef"):
        args = [Ref(Cell(val))]
        post = lambda r: r
    elif op == "integ":
        args = [Ref(Cell(val)), Struct("Knot", [rest[0], rest[1]])]
        post = lambda r: r
    elif op == "mul":
        args = [val, rest[0]]
        post = lambda r: r
    elif op in ("mulassign", "translate"):
        cell = Cell(val)
        args = [Ref(cell), rest[0]]
        post = lambda r, cell=cell: cell.v
    elif op == "neg":
        args = [val]
        post = lambda r: r
    elif op in ("add", "sub"):
        args = [val, make_value(ty, rest[:n])]
        post = lambda r: r
    elif op in ("addref", "subref"):
        args = [Ref(Cell(val)), Ref(Cell(make_value(ty, rest[:n])))]
        post = lambda r: r
    else:
        raise ValueError(op)
    fn = program.find_method(METHOD[op], args)
    if fn is None:
        raise Unsupported("no impl of %s for %s" % (METHOD[op], ty))
    return fn, args, post


def run(e, dom, op, ty, make_nums, max_paths=64, stubs=None):
    """make_nums(dom) -> list of Num.  Returns list of (path, [Num] flattened outcome, raw value)."""
    from interp import Interp
    it = Interp(e.program, dom, max_paths=max_paths, stubs=stubs)
    holder = {}

    def mk(d):
        nums = make_nums(d)
        fn, args, post = build_call(e.program, op, ty, nums)
        holder["post"] = post
        holder["fn"] = fn
        return args

    # need the function before explore: build once with throw-away symbols
    dom.reset()
    fn, _, _ = build_call(e.program, op, ty, make_nums(dom))
    out = []
    # explore() calls mk per run; capture post per run via closure list
    posts = []

    def mk2(d):
        nums = make_nums(d)
        f2, args, post = build_call(e.program, op, ty, nums)
        posts.append(post)
        return args

    paths = it.explore(fn, mk2)
    for p, post in zip(paths, posts):
        if p.panic is not None:
            out.append((p, None, None))
        else:
            v = post(p.result)
            out.append((p, flat(v), v))
    e.rep.functions.update(it.functions_run)
    return out
