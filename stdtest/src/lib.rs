//! Self-test corpus for the std models of the MIR interpreter (/verif/e2/builtins_model.py).
//! Every `t_*` function maps a slice of f64 to a Vec<f64>; the native binary and the interpreter run them on the same
//! inputs and the results must agree bit for bit (lib/selftest_models.py).  Not part of /repo.
#![allow(clippy::all)]
use std::cmp::Ordering;

fn b(x: bool) -> f64 {
    if x {
        1.0
    } else {
        0.0
    }
}
fn u(x: usize) -> f64 {
    x as f64
}
fn ou(x: Option<usize>) -> f64 {
    match x {
        Some(i) => i as f64,
        None => -1.0,
    }
}

pub fn t_map_collect(a: &[f64]) -> Vec<f64> {
    a.iter().map(|x| x * 2.0 + 1.0).collect()
}
pub fn t_zip_rev(a: &[f64]) -> Vec<f64> {
    a.iter().zip(a.iter().rev()).map(|(x, y)| x - y).collect()
}
pub fn t_enumerate_skip_take(a: &[f64]) -> Vec<f64> {
    a.iter().enumerate().skip(1).take(3).map(|(i, x)| x + i as f64).collect()
}
pub fn t_chain_once(a: &[f64]) -> Vec<f64> {
    std::iter::once(7.0).chain(a.iter().copied()).chain(std::iter::once(9.0)).collect()
}
pub fn t_windows(a: &[f64]) -> Vec<f64> {
    a.windows(2).map(|w| w[1] - w[0]).collect()
}
pub fn t_windows3(a: &[f64]) -> Vec<f64> {
    a.windows(3).map(|w| w[0] + w[1] * w[2]).collect()
}
pub fn t_chunks(a: &[f64]) -> Vec<f64> {
    a.chunks(3).map(|c| c.iter().fold(0.0, |s, x| s + x)).collect()
}
pub fn t_chunks_exact_rem(a: &[f64]) -> Vec<f64> {
    let it = a.chunks_exact(2);
    let rem = it.remainder();
    let mut v: Vec<f64> = it.map(|c| c[0] * c[1]).collect();
    v.push(rem.len() as f64);
    v.extend_from_slice(rem);
    v
}
pub fn t_rchunks(a: &[f64]) -> Vec<f64> {
    a.rchunks(2).map(|c| c[0]).collect()
}
pub fn t_chunks_exact_mut(a: &[f64]) -> Vec<f64> {
    let mut v = a.to_vec();
    for c in v.chunks_exact_mut(2) {
        c[0] += c[1];
        c[1] = 0.5;
    }
    v
}
pub fn t_fold_sum_product(a: &[f64]) -> Vec<f64> {
    vec![a.iter().fold(1.0, |s, x| s * 0.5 + x), a.iter().sum::<f64>(), a.iter().copied().product::<f64>()]
}
pub fn t_position_rposition(a: &[f64]) -> Vec<f64> {
    vec![ou(a.iter().position(|&x| x > 1.0)), ou(a.iter().rposition(|&x| x > 1.0)), ou(a.iter().position(|&x| x > 1e9))]
}
pub fn t_find_any_all_count(a: &[f64]) -> Vec<f64> {
    vec![
        a.iter().find(|&&x| x < 0.0).copied().unwrap_or(99.0),
        b(a.iter().any(|&x| x == 2.0)),
        b(a.iter().all(|&x| x < 100.0)),
        u(a.iter().filter(|&&x| x >= 1.0).count()),
        a.iter().find_map(|&x| if x > 2.0 { Some(x * 10.0) } else { None }).unwrap_or(-5.0),
    ]
}
pub fn t_last_nth(a: &[f64]) -> Vec<f64> {
    vec![a.iter().last().copied().unwrap_or(-1.0), a.iter().nth(2).copied().unwrap_or(-2.0), a.iter().rev().nth(1).copied().unwrap_or(-3.0)]
}
pub fn t_min_max_by(a: &[f64]) -> Vec<f64> {
    let mn = a.iter().copied().min_by(|x, y| x.partial_cmp(y).unwrap_or(Ordering::Equal));
    let mx = a.iter().copied().max_by(|x, y| x.total_cmp(y));
    vec![mn.unwrap_or(0.25), mx.unwrap_or(0.75), a.iter().copied().fold(f64::NEG_INFINITY, f64::max)]
}
pub fn t_scan(a: &[f64]) -> Vec<f64> {
    a.iter().scan(0.0, |acc, &x| {
        *acc += x;
        if *acc > 50.0 {
            None
        } else {
            Some(*acc * 2.0)
        }
    }).collect()
}
pub fn t_filter_family(a: &[f64]) -> Vec<f64> {
    let mut v: Vec<f64> = a.iter().copied().filter(|x| *x > 0.0).collect();
    v.push(-100.0);
    v.extend(a.iter().filter_map(|&x| if x < 1.5 { Some(x - 1.0) } else { None }));
    v.push(-200.0);
    v.extend(a.iter().copied().take_while(|&x| x < 3.0));
    v.push(-300.0);
    v.extend(a.iter().copied().skip_while(|&x| x < 3.0));
    v.push(-400.0);
    v.extend(a.iter().map_while(|&x| if x != 2.0 { Some(x + 0.5) } else { None }));
    v
}
pub fn t_step_by_inspect(a: &[f64]) -> Vec<f64> {
    let mut seen = 0.0;
    let mut v: Vec<f64> = a.iter().copied().step_by(2).inspect(|x| seen += x).collect();
    v.push(seen);
    v.extend((0..a.len()).step_by(3).map(|i| a[i]));
    v
}
pub fn t_peekable(a: &[f64]) -> Vec<f64> {
    let mut it = a.iter().copied().peekable();
    let mut v = Vec::new();
    while let Some(x) = it.next() {
        match it.peek() {
            Some(&n) => v.push(n - x),
            None => v.push(x),
        }
    }
    v
}
pub fn t_flat_map(a: &[f64]) -> Vec<f64> {
    a.iter().flat_map(|&x| [x, -x]).collect()
}
pub fn t_try_fold(a: &[f64]) -> Vec<f64> {
    let r: Option<f64> = a.iter().try_fold(0.0, |s, &x| if x < 0.0 { None } else { Some(s + x) });
    let q: Result<f64, f64> = a.iter().try_fold(1.0, |s, &x| if x > 4.0 { Err(x) } else { Ok(s * x) });
    vec![r.unwrap_or(-1.0), match q { Ok(v) => v, Err(e) => -e }]
}
pub fn t_successors_from_fn(a: &[f64]) -> Vec<f64> {
    let x0 = a.first().copied().unwrap_or(1.0);
    let mut v: Vec<f64> = std::iter::successors(Some(x0), |&x| if x.abs() < 20.0 { Some(x * 2.0 + 1.0) } else { None }).collect();
    let mut k = 0usize;
    v.extend(std::iter::from_fn(|| {
        k += 1;
        if k <= a.len().min(3) {
            Some(a[k - 1] + k as f64)
        } else {
            None
        }
    }));
    v.extend(std::iter::repeat(0.25).take(2));
    v
}
pub fn t_unzip(a: &[f64]) -> Vec<f64> {
    let (p, q): (Vec<f64>, Vec<f64>) = a.iter().map(|&x| (x + 1.0, x * x)).unzip();
    let mut v = p;
    v.extend(q);
    v
}
pub fn t_partition_point_bsearch(a: &[f64]) -> Vec<f64> {
    let mut s = a.to_vec();
    s.sort_by(|x, y| x.partial_cmp(y).unwrap());
    let pp = s.partition_point(|&x| x < 2.0);
    let bs = s.binary_search_by(|x| x.partial_cmp(&2.0).unwrap());
    let bs2 = s.binary_search_by(|x| x.partial_cmp(&2.5).unwrap());
    let mut v = s;
    v.push(u(pp));
    v.push(match bs { Ok(i) => i as f64, Err(i) => -(i as f64) - 1.0 });
    v.push(match bs2 { Ok(i) => i as f64, Err(i) => -(i as f64) - 1.0 });
    v
}
pub fn t_sort_total_cmp(a: &[f64]) -> Vec<f64> {
    let mut s = a.to_vec();
    s.sort_by(f64::total_cmp);
    s.reverse();
    s
}
pub fn t_split(a: &[f64]) -> Vec<f64> {
    let mid = a.len() / 2;
    let (l, r) = a.split_at(mid);
    let mut v = vec![u(l.len()), u(r.len())];
    if let Some((f, rest)) = a.split_first() {
        v.push(*f);
        v.push(u(rest.len()));
    }
    if let Some((l, rest)) = a.split_last() {
        v.push(*l);
        v.push(u(rest.len()));
    }
    v.push(a.first().copied().unwrap_or(-1.0));
    v.push(a.last().copied().unwrap_or(-1.0));
    v.push(a.get(3).copied().unwrap_or(-7.0));
    v.push(a.get(1..3).map(|s| s[0] + s[1]).unwrap_or(-8.0));
    v
}
pub fn t_split_at_mut_swap(a: &[f64]) -> Vec<f64> {
    let mut v = a.to_vec();
    let n = v.len();
    if n >= 2 {
        let (l, r) = v.split_at_mut(n / 2);
        l[0] += r[0];
        r[0] = -1.0;
        v.swap(0, n - 1);
    }
    v
}
pub fn t_slice_patterns(a: &[f64]) -> Vec<f64> {
    match a {
        [] => vec![-1.0],
        [x] => vec![*x],
        [x, y] => vec![x + y],
        [first, .., last] => vec![*first, *last],
    }
}
pub fn t_copy_fill(a: &[f64]) -> Vec<f64> {
    let mut v = vec![0.0; a.len() + 1];
    v[..a.len()].copy_from_slice(a);
    let n = v.len();
    v[n - 1..].fill(3.5);
    v
}
pub fn t_iter_mut(a: &[f64]) -> Vec<f64> {
    let mut v = a.to_vec();
    v.iter_mut().for_each(|x| *x *= 3.0);
    for (i, x) in v.iter_mut().enumerate() {
        *x += i as f64;
    }
    for x in v.iter_mut().rev().take(1) {
        *x = -*x;
    }
    v
}
pub fn t_vec_ops(a: &[f64]) -> Vec<f64> {
    let mut v: Vec<f64> = Vec::with_capacity(a.len());
    for &x in a {
        v.push(x);
    }
    let p = v.pop().unwrap_or(-9.0);
    v.insert(0, p);
    if v.len() > 2 {
        let r = v.remove(1);
        v.push(r * 2.0);
    }
    v.truncate(6);
    v.extend([1.0, 1.0, 2.0]);
    v.dedup_by(|x, y| x == y);
    v.retain(|&x| x != 2.0);
    v.push(u(v.len()));
    v.push(b(v.is_empty()));
    v
}
pub fn t_vec_drain_split(a: &[f64]) -> Vec<f64> {
    let mut v = a.to_vec();
    let k = v.len().min(2);
    let d: Vec<f64> = v.drain(..k).collect();
    let mut w = v.split_off(v.len() / 2);
    w.append(&mut v);
    w.extend(d);
    w
}
pub fn t_array_from_fn_map(a: &[f64]) -> Vec<f64> {
    let x0 = a.first().copied().unwrap_or(0.5);
    let arr: [f64; 4] = std::array::from_fn(|i| x0 + i as f64);
    let m = arr.map(|x| x * x);
    let mut v = m.to_vec();
    v.extend(arr.iter().rev());
    v
}
pub fn t_option(a: &[f64]) -> Vec<f64> {
    let f = a.first().copied();
    let l = a.last().copied();
    vec![
        f.map(|x| x + 1.0).unwrap_or(-1.0),
        f.and_then(|x| if x > 0.0 { Some(x * 2.0) } else { None }).unwrap_or_else(|| -2.0),
        f.map_or(-3.0, |x| x - 1.0),
        f.filter(|x| *x > 1.0).unwrap_or(-4.0),
        f.or(Some(5.0)).unwrap(),
        f.zip(l).map(|(x, y)| x * y).unwrap_or(-6.0),
        f.ok_or(-7.0).unwrap_or_else(|e| e),
        b(f.is_some_and(|x| x > 0.0)),
        f.xor(None).unwrap_or(-8.0),
        f.as_ref().map(|x| **&x + 0.5).unwrap_or(-9.0),
        f.unwrap_or_default(),
    ]
}
fn helper_q(a: &[f64]) -> Option<f64> {
    let x = a.first()?;
    let y = a.get(1)?;
    Some(x / y)
}
fn helper_r(a: &[f64]) -> Result<f64, f64> {
    let x = a.first().ok_or(-1.0)?;
    if *x < 0.0 {
        return Err(*x);
    }
    Ok(x.sqrt_like())
}
trait SqrtLike {
    fn sqrt_like(&self) -> f64;
}
impl SqrtLike for f64 {
    fn sqrt_like(&self) -> f64 {
        self * 0.5 + 1.0
    }
}
pub fn t_question_mark(a: &[f64]) -> Vec<f64> {
    vec![helper_q(a).unwrap_or(-1.5), match helper_r(a) { Ok(v) => v, Err(e) => e - 100.0 }]
}
pub fn t_mem(a: &[f64]) -> Vec<f64> {
    let mut v = a.to_vec();
    let mut x = 1.5;
    let mut y = 2.5;
    std::mem::swap(&mut x, &mut y);
    let old = std::mem::replace(&mut x, 9.0);
    let taken = std::mem::take(&mut v);
    let mut o = Some(4.0);
    let t = o.take();
    vec![x, y, old, u(taken.len()), u(v.len()), t.unwrap_or(-1.0), b(o.is_none())]
}
pub fn t_f64_methods(a: &[f64]) -> Vec<f64> {
    let mut v = Vec::new();
    for &x in a {
        v.push(x.abs());
        v.push(x.max(1.0));
        v.push(x.min(1.0));
        v.push(x.mul_add(2.0, 0.5));
        v.push(x.recip());
        v.push(x.copysign(-1.0));
        v.push(x.signum());
        v.push(x.clamp(-1.0, 2.0));
        v.push(x.powi(3));
        v.push(b(x.is_nan()) + 2.0 * b(x.is_finite()) + 4.0 * b(x.is_infinite()) + 8.0 * b(x.is_normal()) + 16.0 * b(x.is_sign_negative()));
        v.push(match x.partial_cmp(&1.0) { Some(Ordering::Less) => -1.0, Some(Ordering::Equal) => 0.0, Some(Ordering::Greater) => 1.0, None => 7.0 });
        v.push(match x.total_cmp(&0.0) { Ordering::Less => -1.0, Ordering::Equal => 0.0, Ordering::Greater => 1.0 });
        v.push(-x);
        v.push(b(x == 0.0) + 2.0 * b(x != x) + 4.0 * b(x >= 2.0) + 8.0 * b(x < -1.0));
    }
    v
}
pub fn t_usize_arith(a: &[f64]) -> Vec<f64> {
    let n = a.len();
    vec![
        u(n / 2), u(n % 3), u(n.saturating_sub(2)), ou(n.checked_sub(3)), u(n.min(4)), u(n.max(2)), u((n + 1) * 3 - 1), u(n << 1), u(n >> 1),
        u(n.pow(2)), b(n.is_power_of_two()), u(n.wrapping_sub(1).min(100)), u(n.abs_diff(5)), u(n.div_ceil(4)), u(n.next_power_of_two()),
    ]
}
pub fn t_ranges(a: &[f64]) -> Vec<f64> {
    let n = a.len();
    let mut v = Vec::new();
    for i in (0..n).rev() {
        v.push(a[i]);
    }
    for i in 1..=n.min(3) {
        v.push(i as f64);
    }
    for i in (0..n).skip(1).step_by(2) {
        v.push(a[i] * 10.0);
    }
    v.push(u((2..n).len()));
    v.push(b((1..4).contains(&n)));
    v.extend(a[n / 2..].iter());
    v.extend(a[..n / 2].iter().rev());
    if n >= 3 {
        v.extend(a[1..=2].iter());
    }
    v
}
pub fn t_labeled_loops(a: &[f64]) -> Vec<f64> {
    let mut v = Vec::new();
    'outer: for i in 0..a.len() {
        for j in 0..a.len() {
            if a[i] + a[j] > 6.0 {
                v.push(u(i * 10 + j));
                continue 'outer;
            }
            if a[j] < -50.0 {
                break 'outer;
            }
        }
        v.push(-1.0);
    }
    let mut k = 0;
    let r = loop {
        if k >= a.len() || a[k] > 2.0 {
            break k;
        }
        k += 1;
    };
    v.push(u(r));
    v
}
pub fn t_tuple_match(a: &[f64]) -> Vec<f64> {
    a.windows(2)
        .map(|w| match (w[0] < w[1], w[0] == w[1]) {
            (true, _) => 1.0,
            (false, true) => 0.0,
            (false, false) => -1.0,
        })
        .collect()
}
pub fn t_sort_unstable_dedup(a: &[f64]) -> Vec<f64> {
    let mut s = a.to_vec();
    s.sort_unstable_by(|x, y| y.partial_cmp(x).unwrap());
    s.dedup();
    s
}
pub fn t_cycle_take_last_rev_chain(a: &[f64]) -> Vec<f64> {
    let mut v: Vec<f64> = a.iter().copied().cycle().take(if a.is_empty() { 0 } else { a.len() + 2 }).collect();
    v.extend(a.iter().rev().chain(a.iter()).skip(1).take(3));
    v.push(a.iter().rev().skip(1).last().copied().unwrap_or(-1.0));
    v
}
pub fn t_contains_starts(a: &[f64]) -> Vec<f64> {
    vec![b(a.contains(&2.0)), b(a.starts_with(&[1.0])), b(a.ends_with(&[3.0])), b(a.is_empty()), b(a.iter().eq(a.iter())), b(a == &a[..])]
}
pub fn t_concat_repeat(a: &[f64]) -> Vec<f64> {
    let parts = [a, &a[..a.len().min(1)]];
    let mut v = parts.concat();
    v.extend(a.iter().take(2).copied().collect::<Vec<_>>().repeat(2));
    v
}
pub fn t_first_last_mut(a: &[f64]) -> Vec<f64> {
    let mut v = a.to_vec();
    if let Some(x) = v.first_mut() {
        *x += 100.0;
    }
    if let Some(x) = v.last_mut() {
        *x -= 100.0;
    }
    if let Some(x) = v.get_mut(1) {
        *x = 0.125;
    }
    v
}
pub fn t_closure_capture(a: &[f64]) -> Vec<f64> {
    let mut total = 0.0;
    let mut add = |x: f64| {
        total += x;
        total
    };
    let mut v: Vec<f64> = a.iter().map(|&x| add(x)).collect();
    let k = 3.0;
    let scale = move |x: f64| x * k;
    v.extend(a.iter().map(|&x| scale(x)));
    v.push(total);
    v
}


// ---- constructs seen in refactors: struct iterators, const generics, fn items, let-else, classify, nested patterns
struct Running<'a> {
    rest: &'a [f64],
    acc: f64,
}
impl<'a> Iterator for Running<'a> {
    type Item = f64;
    fn next(&mut self) -> Option<f64> {
        let (head, tail) = self.rest.split_first()?;
        self.rest = tail;
        self.acc += *head;
        Some(self.acc)
    }
    fn size_hint(&self) -> (usize, Option<usize>) {
        (self.rest.len(), Some(self.rest.len()))
    }
}
pub fn t_struct_iterator(a: &[f64]) -> Vec<f64> {
    let it = Running { rest: a, acc: 0.5 };
    let mut v: Vec<f64> = it.map(|x| x * 2.0).collect();
    let mut it2 = Running { rest: a, acc: 0.0 };
    while let Some(x) = it2.next() {
        if x > 5.0 {
            break;
        }
        v.push(x);
    }
    v.extend(Running { rest: a, acc: 1.0 }.zip(a.iter()).map(|(s, x)| s - x));
    v
}
fn adjacent<T: Copy, const N: usize>(xs: &[T]) -> impl Iterator<Item = [T; N]> + '_ {
    xs.windows(N).map(|w| std::array::from_fn(|i| w[i]))
}
fn combine<const N: usize, F: Fn(f64, f64) -> f64>(a: [f64; N], b: [f64; N], f: F) -> [f64; N] {
    std::array::from_fn(|i| f(a[i], b[i]))
}
pub fn t_const_generics_fn_items(a: &[f64]) -> Vec<f64> {
    let mut v: Vec<f64> = adjacent::<f64, 3>(a).map(|[x, y, z]| x * y - z).collect();
    v.extend(adjacent::<f64, 2>(a).map(|[x, y]| f64::max(x, y)));
    let p = [1.0, 2.0, 3.0];
    let q = [a.first().copied().unwrap_or(0.0), 0.5, -1.0];
    v.extend(combine(p, q, std::ops::Add::add));
    v.extend(combine(p, q, std::ops::Sub::sub));
    v.extend(combine(p, q, f64::min));
    v.extend(p.map(std::ops::Neg::neg));
    v
}
pub fn t_let_else_classify(a: &[f64]) -> Vec<f64> {
    use std::num::FpCategory;
    let Some((last, front)) = a.split_last() else {
        return vec![-1.0];
    };
    let mut v = vec![*last, front.len() as f64];
    for &x in a {
        v.push(match x.classify() {
            FpCategory::Nan => 0.0,
            FpCategory::Infinite => 1.0,
            FpCategory::Zero => 2.0,
            FpCategory::Subnormal => 3.0,
            FpCategory::Normal => 4.0,
        });
        v.push(if matches!(x.partial_cmp(&2.0), Some(Ordering::Greater)) { 1.0 } else { 0.0 });
        v.push(match (x.partial_cmp(&0.0), x.partial_cmp(&3.0)) {
            (Some(Ordering::Greater), Some(Ordering::Less)) => 1.0,
            (Some(Ordering::Less | Ordering::Equal), _) => 2.0,
            _ => 3.0,
        });
    }
    v
}
#[derive(Clone, Copy)]
struct Pt {
    x: f64,
    y: f64,
}
struct Wrap(Pt2);
struct Pt2([f64; 3]);
pub fn t_nested_patterns(a: &[f64]) -> Vec<f64> {
    let pts: Vec<Pt> = a.chunks_exact(2).map(|c| Pt { x: c[0], y: c[1] }).collect();
    let mut v = Vec::new();
    for &Pt { x, y } in &pts {
        v.push(x - y);
    }
    if let [Pt { x: x0, .. }, .., Pt { y: y1, .. }] = pts.as_slice() {
        v.push(x0 + y1);
    }
    let w = Wrap(Pt2([a.first().copied().unwrap_or(1.0), 2.0, 3.0]));
    let Wrap(Pt2([p0, rest @ ..])) = w;
    v.push(p0);
    v.extend(rest);
    let mut arr = [1.0, 2.0, 3.0, 4.0];
    let [c0, ..] = &mut arr;
    *c0 += 10.0;
    let [_, mid @ .., _] = arr;
    v.extend(arr);
    v.extend(mid);
    v
}
fn update_all<F: FnMut(&mut f64)>(xs: &mut [f64], mut f: F) {
    let mut rest = xs;
    while let Some((head, tail)) = std::mem::take(&mut rest).split_first_mut() {
        f(head);
        rest = tail;
    }
}
pub fn t_take_split_first_mut(a: &[f64]) -> Vec<f64> {
    let mut v = a.to_vec();
    let mut k = 0.0;
    update_all(&mut v, |x| {
        k += 1.0;
        *x = *x * 2.0 + k
    });
    let mut ix = 0;
    while let Some(slot) = v.get_mut(ix) {
        *slot -= 0.5;
        ix += 2;
    }
    v
}
trait Shift {
    fn shift(&mut self, d: f64);
    fn value(&self) -> f64;
}
impl Shift for Pt {
    fn shift(&mut self, d: f64) {
        self.y += d;
    }
    fn value(&self) -> f64 {
        self.x * self.y
    }
}
trait ThroughZero: Shift + Sized {
    fn through(mut self, target: f64) -> Self {
        let d = target - self.value();
        self.shift(d);
        self
    }
}
impl<T: Shift> ThroughZero for T {}
pub fn t_blanket_trait(a: &[f64]) -> Vec<f64> {
    a.chunks_exact(2).map(|c| Pt { x: c[0], y: c[1] }.through(1.0)).flat_map(|p| [p.x, p.y]).collect()
}
macro_rules! scaled_impl {
    ($name:ident, $k:expr) => {
        fn $name(a: &[f64]) -> f64 {
            a.iter().rev().fold(0.0, |acc, &x| acc.mul_add($k, x))
        }
    };
}
scaled_impl!(horner2, 2.0);
scaled_impl!(horner3, 3.0);
const fn inv_table<const N: usize>() -> [f64; N] {
    let mut out = [0.0; N];
    let mut i = 0;
    let mut f: u64 = 1;
    while i < N {
        f *= (i as u64) + 1;
        out[i] = 1.0 / (f as f64);
        i += 1;
    }
    out
}
const TABLE: [f64; 5] = inv_table::<5>();
pub fn t_macro_const_table(a: &[f64]) -> Vec<f64> {
    let mut v = vec![horner2(a), horner3(a)];
    v.extend(TABLE.iter().zip(a.iter()).map(|(t, x)| t * x));
    v.push(TABLE[4]);
    v.push(f64::from(3u32) + (a.len() as u32 as f64) + f64::from(2u8));
    v
}
pub fn t_early_returns(a: &[f64]) -> Vec<f64> {
    fn first_big(a: &[f64]) -> Option<(usize, f64)> {
        for (i, &x) in a.iter().enumerate() {
            if x > 2.5 {
                return Some((i, x));
            }
        }
        None
    }
    let n = match a.len().checked_sub(1) {
        Some(n) if n >= 2 => n,
        _ => return vec![-1.0],
    };
    let (i, x) = first_big(a).unwrap_or((99, 0.0));
    vec![n as f64, i as f64, x]
}


#[derive(Clone, Copy, PartialEq)]
enum Step {
    Left,
    Right,
    Both,
}
enum Shape {
    Dot,
    Circle(f64),
    Rect { w: f64, h: f64 },
}
fn area(s: &Shape) -> f64 {
    match s {
        Shape::Dot => 0.0,
        Shape::Circle(r) => 3.0 * r * r,
        Shape::Rect { w, h } => w * h,
    }
}
pub fn t_crate_enums(a: &[f64]) -> Vec<f64> {
    let mut v = Vec::new();
    for w in a.windows(2) {
        let step = match (w[0].partial_cmp(&w[1]), w[0] > 1.5) {
            (Some(Ordering::Less), _) | (Some(Ordering::Equal), true) => Step::Left,
            (Some(Ordering::Greater), false) => Step::Right,
            _ => Step::Both,
        };
        v.push(match step {
            Step::Left => 1.0,
            Step::Right => 2.0,
            Step::Both => 3.0,
        });
        v.push(if step == Step::Both { 9.0 } else { 0.0 });
        v.push(step as u8 as f64);
        let sh = if w[0] < 0.0 {
            Shape::Dot
        } else if w[0] < 2.0 {
            Shape::Circle(w[1])
        } else {
            Shape::Rect { h: w[0], w: w[1] }
        };
        v.push(area(&sh));
        if let Shape::Rect { w: ww, .. } = sh {
            v.push(ww);
        }
    }
    v
}

pub const ALL: &[(&str, fn(&[f64]) -> Vec<f64>)] = &[
    ("t_map_collect", t_map_collect), ("t_zip_rev", t_zip_rev), ("t_enumerate_skip_take", t_enumerate_skip_take),
    ("t_chain_once", t_chain_once), ("t_windows", t_windows), ("t_windows3", t_windows3), ("t_chunks", t_chunks),
    ("t_chunks_exact_rem", t_chunks_exact_rem), ("t_rchunks", t_rchunks), ("t_chunks_exact_mut", t_chunks_exact_mut),
    ("t_fold_sum_product", t_fold_sum_product), ("t_position_rposition", t_position_rposition),
    ("t_find_any_all_count", t_find_any_all_count), ("t_last_nth", t_last_nth), ("t_min_max_by", t_min_max_by), ("t_scan", t_scan),
    ("t_filter_family", t_filter_family), ("t_step_by_inspect", t_step_by_inspect), ("t_peekable", t_peekable),
    ("t_flat_map", t_flat_map), ("t_try_fold", t_try_fold), ("t_successors_from_fn", t_successors_from_fn), ("t_unzip", t_unzip),
    ("t_partition_point_bsearch", t_partition_point_bsearch), ("t_sort_total_cmp", t_sort_total_cmp), ("t_split", t_split),
    ("t_split_at_mut_swap", t_split_at_mut_swap), ("t_slice_patterns", t_slice_patterns), ("t_copy_fill", t_copy_fill),
    ("t_iter_mut", t_iter_mut), ("t_vec_ops", t_vec_ops), ("t_vec_drain_split", t_vec_drain_split),
    ("t_array_from_fn_map", t_array_from_fn_map), ("t_option", t_option), ("t_question_mark", t_question_mark), ("t_mem", t_mem),
    ("t_f64_methods", t_f64_methods), ("t_usize_arith", t_usize_arith), ("t_ranges", t_ranges), ("t_labeled_loops", t_labeled_loops),
    ("t_tuple_match", t_tuple_match), ("t_sort_unstable_dedup", t_sort_unstable_dedup),
    ("t_cycle_take_last_rev_chain", t_cycle_take_last_rev_chain), ("t_contains_starts", t_contains_starts),
    ("t_concat_repeat", t_concat_repeat), ("t_first_last_mut", t_first_last_mut), ("t_closure_capture", t_closure_capture),
    ("t_struct_iterator", t_struct_iterator), ("t_const_generics_fn_items", t_const_generics_fn_items),
    ("t_let_else_classify", t_let_else_classify), ("t_nested_patterns", t_nested_patterns),
    ("t_take_split_first_mut", t_take_split_first_mut), ("t_blanket_trait", t_blanket_trait),
    ("t_macro_const_table", t_macro_const_table), ("t_early_returns", t_early_returns),
    ("t_crate_enums", t_crate_enums),
];
