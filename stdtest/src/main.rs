//! Runs every corpus function on the inputs given on stdin (one per line: hex bit patterns), prints `name idx: bits…|PANIC`.
use pp_verif_stdtest::ALL;
use std::io::{self, BufRead};

fn main() {
    std::panic::set_hook(Box::new(|_| {}));
    let inputs: Vec<Vec<f64>> = io::stdin()
        .lock()
        .lines()
        .map(|l| l.unwrap().split_whitespace().map(|h| f64::from_bits(u64::from_str_radix(h, 16).unwrap())).collect())
        .collect();
    for (name, f) in ALL {
        for (i, inp) in inputs.iter().enumerate() {
            let r = std::panic::catch_unwind(|| f(inp));
            match r {
                Ok(v) => println!("{} {}: {}", name, i, v.iter().map(|x| format!("{:016x}", x.to_bits())).collect::<Vec<_>>().join(" ")),
                Err(_) => println!("{} {}: PANIC", name, i),
            }
        }
    }
}
