#!/bin/sh
# Offline set-up: pre-build the Kani harness crate's dependencies and the MIR-dump target dir.
set -e
cd "$(dirname "$0")"
export CARGO_NET_OFFLINE=true
mkdir -p build evidence replays
python3 lib/setup_build.py
