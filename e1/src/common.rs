//! Probe piece types and specification functions shared by the harnesses.
//!
//! The probe types contain no floating-point arithmetic: "the value at x of
//! piece k" is a bit-mixing function of (piece identity, bits of x), so the
//! bit-for-bit claims of the control-code properties are free of rounding and
//! cheap for a SAT back end.

use piecewise_polynomial::*;
use std::ops::{Add, Mul, MulAssign, Neg, Sub};

/// Clears the top exponent bit: the result is always a finite f64, so no NaN
/// payload question arises when the value travels through `f64` returns.
#[inline(always)]
pub fn finite_from(bits: u64) -> f64 {
    f64::from_bits(bits & 0xBFFF_FFFF_FFFF_FFFF)
}

/// A piece whose value depends on its identity and on every bit of the argument.
#[derive(Debug, Clone, Copy, PartialEq)]
pub struct Probe(pub u64);

impl Evaluate for Probe {
    #[inline]
    fn evaluate(&self, x: f64) -> f64 {
        finite_from(self.0 ^ x.to_bits().rotate_left(7))
    }
}

/// Specification of C02: first index whose end is strictly greater than x, else the last.
pub fn spec_index(ends: &[f64], x: f64) -> usize {
    let mut i = 0;
    while i < ends.len() {
        if ends[i] > x {
            return i;
        }
        i += 1;
    }
    ends.len() - 1
}

pub fn non_decreasing_non_nan(ends: &[f64]) -> bool {
    let mut i = 0;
    while i < ends.len() {
        if ends[i].is_nan() {
            return false;
        }
        if i > 0 && !(ends[i - 1] <= ends[i]) {
            return false;
        }
        i += 1;
    }
    true
}

pub fn build_probe<const N: usize>(ends: &[f64; N], ids: &[u64; N]) -> Piecewise<Probe> {
    let mut segments = Vec::with_capacity(N);
    let mut i = 0;
    while i < N {
        segments.push(Segment {
            end: ends[i],
            poly: Probe(ids[i]),
        });
        i += 1;
    }
    Piecewise { segments }
}

/// A piece for the merges: `f` is the identity contributed by the left operand,
/// `g` by the right one; `op` records which operator combined them (0 = none,
/// 1 = add, 2 = sub).
#[derive(Debug, Clone, Copy, PartialEq)]
pub struct Pair {
    pub f: u32,
    pub g: u32,
    pub op: u8,
}

impl<'a, 'b> Add<&'b Pair> for &'a Pair {
    type Output = Pair;
    #[inline]
    fn add(self, o: &'b Pair) -> Pair {
        Pair { f: self.f, g: o.g, op: 1 }
    }
}
impl<'a, 'b> Sub<&'b Pair> for &'a Pair {
    type Output = Pair;
    #[inline]
    fn sub(self, o: &'b Pair) -> Pair {
        Pair { f: self.f, g: o.g, op: 2 }
    }
}

/// A piece that logs the operations applied to it: `acc` folds (opcode, argument bits).
#[derive(Debug, Clone, Copy, PartialEq)]
pub struct OpLog {
    pub id: u64,
    pub acc: u64,
}

#[inline(always)]
pub fn fold(acc: u64, opcode: u64, arg: u64) -> u64 {
    (acc.rotate_left(5) ^ opcode).rotate_left(11) ^ arg
}

pub const OP_MUL: u64 = 0x11;
pub const OP_MULASSIGN: u64 = 0x11; // `*=` must give exactly the result of `*`
pub const OP_NEG: u64 = 0x22;
pub const OP_TRANSLATE: u64 = 0x33;
pub const OP_DERIV: u64 = 0x44;
pub const OP_INDEF: u64 = 0x55;

impl Mul<f64> for OpLog {
    type Output = OpLog;
    #[inline]
    fn mul(self, s: f64) -> OpLog {
        OpLog { id: self.id, acc: fold(self.acc, OP_MUL, s.to_bits()) }
    }
}
impl MulAssign<f64> for OpLog {
    #[inline]
    fn mul_assign(&mut self, s: f64) {
        self.acc = fold(self.acc, OP_MULASSIGN, s.to_bits());
    }
}
impl Neg for OpLog {
    type Output = OpLog;
    #[inline]
    fn neg(self) -> OpLog {
        OpLog { id: self.id, acc: fold(self.acc, OP_NEG, 0) }
    }
}
impl Translate for OpLog {
    #[inline]
    fn translate(&mut self, v: f64) {
        self.acc = fold(self.acc, OP_TRANSLATE, v.to_bits());
    }
}
impl Evaluate for OpLog {
    #[inline]
    fn evaluate(&self, x: f64) -> f64 {
        finite_from(self.id ^ self.acc.rotate_left(13) ^ x.to_bits().rotate_left(7))
    }
}
impl HasDerivative for OpLog {
    type DerivativeOf = OpLog;
    #[inline]
    fn derivative(&self) -> OpLog {
        OpLog { id: self.id, acc: fold(self.acc, OP_DERIV, 0) }
    }
}
impl HasIntegral for OpLog {
    type IntegralOf = OpLog;
    #[inline]
    fn indefinite(&self) -> OpLog {
        OpLog { id: self.id, acc: fold(self.acc, OP_INDEF, 0) }
    }
    #[inline]
    fn integral(&self, knot: Knot) -> OpLog {
        let mut indef = self.indefinite();
        indef.translate(knot.y - indef.evaluate(knot.x));
        indef
    }
}

pub fn build_oplog<const N: usize>(ends: &[f64; N], ids: &[u64; N], accs: &[u64; N]) -> Piecewise<OpLog> {
    let mut segments = Vec::with_capacity(N);
    let mut i = 0;
    while i < N {
        segments.push(Segment {
            end: ends[i],
            poly: OpLog { id: ids[i], acc: accs[i] },
        });
        i += 1;
    }
    Piecewise { segments }
}
