//! C03 — PiecewiseEvaluator agrees with direct evaluation on every query history.
use crate::common::*;
use piecewise_polynomial::*;

fn check<const N: usize, const Q: usize>(allow_nan: bool) {
    let ends: [f64; N] = kani::any();
    let ids: [u64; N] = kani::any();
    kani::assume(non_decreasing_non_nan(&ends));
    let pw = build_probe(&ends, &ids);
    let xs: [f64; Q] = kani::any();

    let mut ev = PiecewiseEvaluator::new(&pw.segments);
    let mut q = 0;
    let mut moved_back_two = false;
    let mut hit_end_backwards = false;
    let mut saw_nan = false;
    let mut non_nan_after_nan = false;
    let mut prev_idx = 0usize;
    let mut have_prev = false;
    while q < Q {
        let x = xs[q];
        if !allow_nan {
            kani::assume(!x.is_nan());
        }
        let got = ev.evaluate(x);
        if !x.is_nan() {
            let k = spec_index(&ends, x);
            let want = Probe(ids[k]).evaluate(x);
            assert!(got.to_bits() == want.to_bits(), "evaluator differs from direct evaluation");
            // the real direct evaluation, too (not only the spec)
            assert!(got.to_bits() == pw.evaluate(x).to_bits(), "evaluator differs from Piecewise::evaluate");
            if have_prev && k + 2 <= prev_idx {
                moved_back_two = true;
            }
            if have_prev && k < prev_idx && k > 0 && x == ends[k - 1] {
                hit_end_backwards = true;
            }
            if saw_nan {
                non_nan_after_nan = true;
            }
            prev_idx = k;
            have_prev = true;
        } else {
            saw_nan = true;
        }
        q += 1;
    }
    kani::cover!(N < 3 || Q < 2 || moved_back_two, "backward move across >= 2 segments");
    kani::cover!(N < 3 || Q < 2 || hit_end_backwards, "backward move landing exactly on an end");
    kani::cover!(!allow_nan || Q < 2 || non_nan_after_nan, "non-NaN query after a NaN query");
}

macro_rules! inst {
    ($name:ident, $n:expr, $q:expr, $nan:expr, $unw:expr) => {
        #[kani::proof]
        #[kani::unwind($unw)]
        fn $name() {
            check::<$n, $q>($nan)
        }
    };
}

inst!(c03_n1_q3, 1, 3, false, 5);
inst!(c03_n2_q3, 2, 3, false, 5);
inst!(c03_n3_q3, 3, 3, false, 5);
inst!(c03_n4_q4, 4, 4, false, 6);
inst!(c03_n5_q3, 5, 3, false, 7);
inst!(c03_n3_q5, 3, 5, false, 7);
// C16: same histories without the non-NaN assumption on queries
inst!(c16_nan_n1_q3, 1, 3, true, 5);
inst!(c16_nan_n2_q3, 2, 3, true, 5);
inst!(c16_nan_n3_q3, 3, 3, true, 5);
inst!(c16_nan_n4_q4, 4, 4, true, 6);

/// History independence of the evaluator's *state* (thorough tier; needs the read-only accessor behind
/// `--cfg piecewise_polynomial_verif`).  If the state after (l1, l2, x) equals the state after (x) alone for all
/// l1, l2, x, then by induction the state after ANY history equals the state after its last query, so histories of
/// every length reduce to length <= 2 and the Q=3 harnesses above cover them (for N within the bound).  This is
/// stronger than the property (it speaks about the representation), so its failure alone is not a violation.
#[cfg(piecewise_polynomial_verif)]
fn state_independent<const N: usize>() {
    let ends: [f64; N] = kani::any();
    let ids: [u64; N] = kani::any();
    kani::assume(non_decreasing_non_nan(&ends));
    let pw = build_probe(&ends, &ids);
    let l1: f64 = kani::any();
    let l2: f64 = kani::any();
    let x: f64 = kani::any();
    kani::assume(!l1.is_nan() && !l2.is_nan() && !x.is_nan());
    let mut a = PiecewiseEvaluator::new(&pw.segments);
    let _ = a.evaluate(l1);
    let _ = a.evaluate(l2);
    let ra = a.evaluate(x);
    let mut b = PiecewiseEvaluator::new(&pw.segments);
    let rb = b.evaluate(x);
    assert!(ra.to_bits() == rb.to_bits(), "answer depends on earlier queries");
    assert!(a.verif_state() == b.verif_state(), "evaluator state after (l1,l2,x) differs from the state after (x)");
    kani::cover!(l1 > x && l2 < x, "history moves forward, back below x, then to x");
}

#[cfg(piecewise_polynomial_verif)]
macro_rules! indep {
    ($name:ident, $n:expr, $unw:expr) => {
        #[kani::proof]
        #[kani::unwind($unw)]
        fn $name() {
            state_independent::<$n>()
        }
    };
}
#[cfg(piecewise_polynomial_verif)]
indep!(c03_state_indep_n2, 2, 5);
#[cfg(piecewise_polynomial_verif)]
indep!(c03_state_indep_n3, 3, 6);
#[cfg(piecewise_polynomial_verif)]
indep!(c03_state_indep_n4, 4, 7);
