//! C18 — serialization round trips are bit-identical.
//!  * borsh (feature "borsh"): the derived BorshSerialize / BorshDeserialize impls through borsh's own writer/reader.
//!  * serde (default): the derived Serialize / Deserialize impls driven through a harness-local, non-self-describing
//!    binary format (f64 <-> 8 bytes, seq <-> u64 length prefix, struct/tuple/newtype in declaration order).
//! Text formats (float printing/parsing loops of a dependency) are outside what CBMC finishes: not claimed.
use piecewise_polynomial::*;

pub trait Bits {
    fn bits(&self, out: &mut Vec<u64>);
    fn make() -> Self;
}

fn any_non_nan() -> f64 {
    let x: f64 = kani::any();
    kani::assume(!x.is_nan());
    x
}

impl Bits for Knot {
    fn bits(&self, out: &mut Vec<u64>) {
        out.push(self.x.to_bits());
        out.push(self.y.to_bits());
    }
    fn make() -> Self {
        Knot { x: any_non_nan(), y: any_non_nan() }
    }
}
impl Bits for Poly0 {
    fn bits(&self, out: &mut Vec<u64>) {
        out.push(self.0.to_bits());
    }
    fn make() -> Self {
        Poly0(any_non_nan())
    }
}
macro_rules! bits_poly {
    ($t:ident, $n:expr) => {
        impl Bits for $t {
            fn bits(&self, out: &mut Vec<u64>) {
                let mut i = 0;
                while i < $n {
                    out.push(self.0[i].to_bits());
                    i += 1;
                }
            }
            fn make() -> Self {
                let mut a = [0.0; $n];
                let mut i = 0;
                while i < $n {
                    a[i] = any_non_nan();
                    i += 1;
                }
                $t(a)
            }
        }
    };
}
bits_poly!(Poly1, 2);
bits_poly!(Poly2, 3);
bits_poly!(Poly3, 4);
bits_poly!(Poly4, 5);
bits_poly!(Poly5, 6);
bits_poly!(Poly6, 7);
bits_poly!(Poly7, 8);
bits_poly!(Poly8, 9);
impl<T: Bits> Bits for Log<T> {
    fn bits(&self, out: &mut Vec<u64>) {
        self.0.bits(out)
    }
    fn make() -> Self {
        Log(T::make())
    }
}
impl<T: Bits> Bits for IntOfLog<T> {
    fn bits(&self, out: &mut Vec<u64>) {
        out.push(self.k.to_bits());
        self.poly.bits(out)
    }
    fn make() -> Self {
        IntOfLog { k: any_non_nan(), poly: T::make() }
    }
}
impl Bits for IntOfLogPoly4 {
    fn bits(&self, out: &mut Vec<u64>) {
        out.push(self.k.to_bits());
        let mut i = 0;
        while i < 4 {
            out.push(self.coeffs[i].to_bits());
            i += 1;
        }
        out.push(self.u.to_bits());
    }
    fn make() -> Self {
        IntOfLogPoly4 { k: any_non_nan(), coeffs: [any_non_nan(), any_non_nan(), any_non_nan(), any_non_nan()], u: any_non_nan() }
    }
}
impl<T: Bits> Bits for Segment<T> {
    fn bits(&self, out: &mut Vec<u64>) {
        out.push(self.end.to_bits());
        self.poly.bits(out)
    }
    fn make() -> Self {
        Segment { end: any_non_nan(), poly: T::make() }
    }
}

pub fn make_pw<T: Bits, const N: usize>() -> Piecewise<T> {
    let mut segments = Vec::with_capacity(N);
    let mut i = 0;
    while i < N {
        segments.push(Segment::<T>::make());
        i += 1;
    }
    Piecewise { segments }
}

pub fn pw_bits<T: Bits>(p: &Piecewise<T>, out: &mut Vec<u64>) {
    out.push(p.segments.len() as u64);
    let mut i = 0;
    while i < p.segments.len() {
        p.segments[i].bits(out);
        i += 1;
    }
}

fn same_bits(a: &Vec<u64>, b: &Vec<u64>) -> bool {
    if a.len() != b.len() {
        return false;
    }
    let mut i = 0;
    while i < a.len() {
        if a[i] != b[i] {
            return false;
        }
        i += 1;
    }
    true
}

// ------------------------------------------------------------------------------------------------ borsh
#[cfg(feature = "borsh")]
mod with_borsh {
    use super::*;
    use borsh::{BorshDeserialize, BorshSerialize};

    const CAP: usize = 96;

    /// serialize into a fixed buffer; io errors are forgotten, not dropped (their drop glue is expensive for CBMC)
    fn ser<T: BorshSerialize>(v: &T, buf: &mut [u8; CAP]) -> Option<usize> {
        let mut w: &mut [u8] = &mut buf[..];
        match v.serialize(&mut w) {
            Ok(()) => Some(CAP - w.len()),
            Err(e) => {
                core::mem::forget(e);
                None
            }
        }
    }

    fn de<T: BorshDeserialize>(buf: &[u8; CAP], n: usize) -> Option<T> {
        let mut r: &[u8] = &buf[..n];
        match T::deserialize(&mut r) {
            Ok(v) => {
                if r.is_empty() {
                    Some(v)
                } else {
                    None
                }
            }
            Err(e) => {
                core::mem::forget(e);
                None
            }
        }
    }

    fn roundtrip<T: Bits + BorshSerialize + BorshDeserialize>() {
        let v = T::make();
        let mut buf = [0u8; CAP];
        let n = ser(&v, &mut buf);
        assert!(n.is_some(), "borsh failed to serialize a non-NaN value");
        let w: Option<T> = de(&buf, n.unwrap());
        assert!(w.is_some(), "borsh failed to deserialize what it wrote");
        let w = w.unwrap();
        let (mut a, mut b) = (Vec::new(), Vec::new());
        v.bits(&mut a);
        w.bits(&mut b);
        assert!(same_bits(&a, &b), "borsh round trip changed a number");
        kani::cover!(n.unwrap() == 8 * a.len(), "payload is 8 bytes per number");
        core::mem::forget(a);
        core::mem::forget(b);
    }

    /// Reader that hands borsh the bytes of the buffer, but serves the 4-byte length prefix of the top-level Vec as
    /// the *constant* N after checking that the buffer really holds N there (else: error).  Keeps borsh's element loop
    /// and Vec capacity concrete for CBMC; the round-trip claim for N segments is unchanged.
    struct PrefixReader<'b> {
        buf: &'b [u8; CAP],
        pos: usize,
        end: usize,
        n: u32,
    }

    impl<'b> borsh::io::Read for PrefixReader<'b> {
        fn read(&mut self, out: &mut [u8]) -> borsh::io::Result<usize> {
            let mut k = 0;
            while k < out.len() && self.pos < self.end {
                let b = self.buf[self.pos];
                if self.pos < 4 {
                    let want = self.n.to_le_bytes()[self.pos];
                    if b != want {
                        return Err(borsh::io::Error::new(borsh::io::ErrorKind::InvalidData, "length prefix"));
                    }
                    out[k] = want;
                } else {
                    out[k] = b;
                }
                self.pos += 1;
                k += 1;
            }
            Ok(k)
        }
    }

    fn de_pw<T: BorshDeserialize, const N: usize>(buf: &[u8; CAP], n: usize) -> Option<Piecewise<T>> {
        let mut r = PrefixReader { buf, pos: 0, end: n, n: N as u32 };
        match Piecewise::<T>::deserialize_reader(&mut r) {
            Ok(v) => {
                if r.pos == r.end {
                    Some(v)
                } else {
                    None
                }
            }
            Err(e) => {
                core::mem::forget(e);
                None
            }
        }
    }

    fn roundtrip_pw<T: Bits + BorshSerialize + BorshDeserialize, const N: usize>() {
        let v = make_pw::<T, N>();
        let mut buf = [0u8; CAP];
        let n = ser(&v, &mut buf);
        assert!(n.is_some(), "borsh failed to serialize a non-NaN value");
        let w: Option<Piecewise<T>> = de_pw::<T, N>(&buf, n.unwrap());
        assert!(w.is_some(), "borsh failed to deserialize what it wrote");
        let w = w.unwrap();
        let (mut a, mut b) = (Vec::new(), Vec::new());
        pw_bits(&v, &mut a);
        pw_bits(&w, &mut b);
        assert!(same_bits(&a, &b), "borsh round trip changed a number or the number of segments");
        kani::cover!(w.segments.len() == N, "N segments came back");
        core::mem::forget(a);
        core::mem::forget(b);
        core::mem::forget(v);
        core::mem::forget(w);
    }

    macro_rules! rt {
        ($name:ident, $t:ty, $unw:expr) => {
            #[kani::proof]
            #[kani::unwind($unw)]
            pub(crate) fn $name() {
                roundtrip::<$t>()
            }
        };
    }
    macro_rules! rtpw {
        ($name:ident, $t:ty, $n:expr, $unw:expr) => {
            #[kani::proof]
            #[kani::unwind($unw)]
            pub(crate) fn $name() {
                roundtrip_pw::<$t, $n>()
            }
        };
    }
    rt!(borsh_knot, Knot, 12);
    rt!(borsh_poly0, Poly0, 12);
    rt!(borsh_poly1, Poly1, 12);
    rt!(borsh_poly2, Poly2, 12);
    rt!(borsh_poly3, Poly3, 12);
    rt!(borsh_poly4, Poly4, 12);
    rt!(borsh_poly5, Poly5, 12);
    rt!(borsh_poly6, Poly6, 12);
    rt!(borsh_poly7, Poly7, 12);
    rt!(borsh_poly8, Poly8, 14);
    rt!(borsh_log_poly1, Log<Poly1>, 12);
    rt!(borsh_intoflog_poly2, IntOfLog<Poly2>, 12);
    rt!(borsh_intoflogpoly4, IntOfLogPoly4, 12);
    rt!(borsh_segment_poly1, Segment<Poly1>, 12);
    rt!(borsh_segment_intoflogpoly4, Segment<IntOfLogPoly4>, 12);
    rt!(borsh_log_poly3, Log<Poly3>, 12);
    rt!(borsh_intoflog_poly0, IntOfLog<Poly0>, 12);
    rtpw!(borsh_pw_poly0_n0, Poly0, 0, 12);
    rtpw!(borsh_pw_poly0_n1, Poly0, 1, 12);
    rtpw!(borsh_pw_poly0_n2, Poly0, 2, 12);
    rtpw!(borsh_pw_poly1_n2, Poly1, 2, 12);

    /// NaN is rejected by borsh on the way out (so the non-NaN precondition is not vacuous).
    #[kani::proof]
    #[kani::unwind(12)]
    pub(crate) fn borsh_nan_rejected() {
        let v = Poly0(f64::NAN);
        let mut buf = [0u8; CAP];
        assert!(ser(&v, &mut buf).is_none(), "borsh serialized a NaN");
    }
}

// ------------------------------------------------------------------------------------------------ serde
/// Harness-local binary format driving the crate's *derived* Serialize / Deserialize impls.
mod fmt {
    use serde::de::{self, DeserializeSeed, SeqAccess, Visitor};
    use serde::ser::{self, Impossible, Serialize};

    pub const CAP: usize = 96;
    pub const MAXSEQ: usize = 3;

    #[derive(Debug)]
    pub struct E;
    impl std::fmt::Display for E {
        fn fmt(&self, _: &mut std::fmt::Formatter<'_>) -> std::fmt::Result {
            Ok(())
        }
    }
    impl std::error::Error for E {}
    impl ser::Error for E {
        fn custom<T: std::fmt::Display>(_: T) -> Self {
            E
        }
    }
    impl de::Error for E {
        fn custom<T: std::fmt::Display>(_: T) -> Self {
            E
        }
    }

    pub struct Enc {
        pub buf: [u8; CAP],
        pub pos: usize,
    }

    impl Enc {
        fn put8(&mut self, b: [u8; 8]) -> Result<(), E> {
            if self.pos + 8 > CAP {
                return Err(E);
            }
            let mut i = 0;
            while i < 8 {
                self.buf[self.pos + i] = b[i];
                i += 1;
            }
            self.pos += 8;
            Ok(())
        }
    }

    macro_rules! unsupported_ser {
        ($($f:ident: $t:ty),*) => { $(fn $f(self, _: $t) -> Result<(), E> { Err(E) })* };
    }

    impl<'a> ser::Serializer for &'a mut Enc {
        type Ok = ();
        type Error = E;
        type SerializeSeq = Self;
        type SerializeTuple = Self;
        type SerializeTupleStruct = Self;
        type SerializeTupleVariant = Impossible<(), E>;
        type SerializeMap = Impossible<(), E>;
        type SerializeStruct = Self;
        type SerializeStructVariant = Impossible<(), E>;

        fn serialize_f64(self, v: f64) -> Result<(), E> {
            self.put8(v.to_bits().to_le_bytes())
        }
        // scalars other than f64 are written as one 8-byte word each (the format is not self-describing, like bincode)
        fn serialize_bool(self, v: bool) -> Result<(), E> {
            self.put8((v as u64).to_le_bytes())
        }
        fn serialize_i8(self, v: i8) -> Result<(), E> {
            self.put8((v as i64).to_le_bytes())
        }
        fn serialize_i16(self, v: i16) -> Result<(), E> {
            self.put8((v as i64).to_le_bytes())
        }
        fn serialize_i32(self, v: i32) -> Result<(), E> {
            self.put8((v as i64).to_le_bytes())
        }
        fn serialize_i64(self, v: i64) -> Result<(), E> {
            self.put8(v.to_le_bytes())
        }
        fn serialize_u8(self, v: u8) -> Result<(), E> {
            self.put8((v as u64).to_le_bytes())
        }
        fn serialize_u16(self, v: u16) -> Result<(), E> {
            self.put8((v as u64).to_le_bytes())
        }
        fn serialize_u32(self, v: u32) -> Result<(), E> {
            self.put8((v as u64).to_le_bytes())
        }
        fn serialize_u64(self, v: u64) -> Result<(), E> {
            self.put8(v.to_le_bytes())
        }
        fn serialize_f32(self, v: f32) -> Result<(), E> {
            self.put8((v.to_bits() as u64).to_le_bytes())
        }
        unsupported_ser!(serialize_char: char, serialize_str: &str, serialize_bytes: &[u8]);
        fn serialize_unit_struct(self, _: &'static str) -> Result<(), E> {
            Ok(())
        }
        fn serialize_none(self) -> Result<(), E> {
            self.put8(0u64.to_le_bytes())
        }
        fn serialize_some<T: ?Sized + Serialize>(self, v: &T) -> Result<(), E> {
            self.put8(1u64.to_le_bytes())?;
            v.serialize(self)
        }
        fn serialize_unit(self) -> Result<(), E> {
            Ok(())
        }
        fn serialize_unit_variant(self, _: &'static str, _: u32, _: &'static str) -> Result<(), E> {
            Err(E)
        }
        fn serialize_newtype_struct<T: ?Sized + Serialize>(self, _: &'static str, value: &T) -> Result<(), E> {
            value.serialize(self)
        }
        fn serialize_newtype_variant<T: ?Sized + Serialize>(self, _: &'static str, _: u32, _: &'static str, _: &T) -> Result<(), E> {
            Err(E)
        }
        fn serialize_seq(self, len: Option<usize>) -> Result<Self, E> {
            match len {
                Some(n) => {
                    self.put8((n as u64).to_le_bytes())?;
                    Ok(self)
                }
                None => Err(E),
            }
        }
        fn serialize_tuple(self, _: usize) -> Result<Self, E> {
            Ok(self)
        }
        fn serialize_tuple_struct(self, _: &'static str, _: usize) -> Result<Self, E> {
            Ok(self)
        }
        fn serialize_tuple_variant(self, _: &'static str, _: u32, _: &'static str, _: usize) -> Result<Impossible<(), E>, E> {
            Err(E)
        }
        fn serialize_map(self, _: Option<usize>) -> Result<Impossible<(), E>, E> {
            Err(E)
        }
        fn serialize_struct(self, _: &'static str, _: usize) -> Result<Self, E> {
            Ok(self)
        }
        fn serialize_struct_variant(self, _: &'static str, _: u32, _: &'static str, _: usize) -> Result<Impossible<(), E>, E> {
            Err(E)
        }
    }

    impl<'a> ser::SerializeSeq for &'a mut Enc {
        type Ok = ();
        type Error = E;
        fn serialize_element<T: ?Sized + Serialize>(&mut self, v: &T) -> Result<(), E> {
            v.serialize(&mut **self)
        }
        fn end(self) -> Result<(), E> {
            Ok(())
        }
    }
    impl<'a> ser::SerializeTuple for &'a mut Enc {
        type Ok = ();
        type Error = E;
        fn serialize_element<T: ?Sized + Serialize>(&mut self, v: &T) -> Result<(), E> {
            v.serialize(&mut **self)
        }
        fn end(self) -> Result<(), E> {
            Ok(())
        }
    }
    impl<'a> ser::SerializeTupleStruct for &'a mut Enc {
        type Ok = ();
        type Error = E;
        fn serialize_field<T: ?Sized + Serialize>(&mut self, v: &T) -> Result<(), E> {
            v.serialize(&mut **self)
        }
        fn end(self) -> Result<(), E> {
            Ok(())
        }
    }
    impl<'a> ser::SerializeStruct for &'a mut Enc {
        type Ok = ();
        type Error = E;
        fn serialize_field<T: ?Sized + Serialize>(&mut self, _: &'static str, v: &T) -> Result<(), E> {
            v.serialize(&mut **self)
        }
        fn end(self) -> Result<(), E> {
            Ok(())
        }
    }

    pub struct Dec<'b> {
        pub buf: &'b [u8; CAP],
        pub pos: usize,
        pub end: usize,
        pub expect_seq: usize,
    }

    impl<'b> Dec<'b> {
        fn get8(&mut self) -> Result<[u8; 8], E> {
            if self.pos + 8 > self.end {
                return Err(E);
            }
            let mut b = [0u8; 8];
            let mut i = 0;
            while i < 8 {
                b[i] = self.buf[self.pos + i];
                i += 1;
            }
            self.pos += 8;
            Ok(b)
        }
    }

    struct Access<'a, 'b> {
        de: &'a mut Dec<'b>,
        left: usize,
    }

    impl<'de, 'a, 'b> SeqAccess<'de> for Access<'a, 'b> {
        type Error = E;
        fn next_element_seed<S: DeserializeSeed<'de>>(&mut self, seed: S) -> Result<Option<S::Value>, E> {
            if self.left == 0 {
                return Ok(None);
            }
            self.left -= 1;
            seed.deserialize(&mut *self.de).map(Some)
        }
        fn size_hint(&self) -> Option<usize> {
            Some(self.left)
        }
    }

    impl<'de, 'a, 'b> de::Deserializer<'de> for &'a mut Dec<'b> {
        type Error = E;
        fn deserialize_any<V: Visitor<'de>>(self, _: V) -> Result<V::Value, E> {
            Err(E)
        }
        fn deserialize_f64<V: Visitor<'de>>(self, v: V) -> Result<V::Value, E> {
            let b = self.get8()?;
            v.visit_f64(f64::from_bits(u64::from_le_bytes(b)))
        }
        fn deserialize_seq<V: Visitor<'de>>(self, v: V) -> Result<V::Value, E> {
            let n = u64::from_le_bytes(self.get8()?) as usize;
            // The harness tells the decoder how many elements the sequence it wrote has; any other length prefix is
            // rejected.  This keeps the visitor's loop bound and Vec capacity concrete for CBMC (a symbolic capacity
            // costs minutes) without weakening the round-trip claim for that length.
            if n != self.expect_seq {
                return Err(E);
            }
            let left = self.expect_seq;
            v.visit_seq(Access { de: self, left })
        }
        fn deserialize_tuple<V: Visitor<'de>>(self, len: usize, v: V) -> Result<V::Value, E> {
            v.visit_seq(Access { de: self, left: len })
        }
        fn deserialize_tuple_struct<V: Visitor<'de>>(self, _: &'static str, len: usize, v: V) -> Result<V::Value, E> {
            v.visit_seq(Access { de: self, left: len })
        }
        fn deserialize_struct<V: Visitor<'de>>(self, _: &'static str, fields: &'static [&'static str], v: V) -> Result<V::Value, E> {
            v.visit_seq(Access { de: self, left: fields.len() })
        }
        fn deserialize_newtype_struct<V: Visitor<'de>>(self, _: &'static str, v: V) -> Result<V::Value, E> {
            v.visit_newtype_struct(self)
        }
        fn deserialize_bool<V: Visitor<'de>>(self, v: V) -> Result<V::Value, E> {
            match u64::from_le_bytes(self.get8()?) {
                0 => v.visit_bool(false),
                1 => v.visit_bool(true),
                _ => Err(E),
            }
        }
        fn deserialize_i8<V: Visitor<'de>>(self, v: V) -> Result<V::Value, E> {
            v.visit_i8(i64::from_le_bytes(self.get8()?) as i8)
        }
        fn deserialize_i16<V: Visitor<'de>>(self, v: V) -> Result<V::Value, E> {
            v.visit_i16(i64::from_le_bytes(self.get8()?) as i16)
        }
        fn deserialize_i32<V: Visitor<'de>>(self, v: V) -> Result<V::Value, E> {
            v.visit_i32(i64::from_le_bytes(self.get8()?) as i32)
        }
        fn deserialize_i64<V: Visitor<'de>>(self, v: V) -> Result<V::Value, E> {
            v.visit_i64(i64::from_le_bytes(self.get8()?))
        }
        fn deserialize_u8<V: Visitor<'de>>(self, v: V) -> Result<V::Value, E> {
            v.visit_u8(u64::from_le_bytes(self.get8()?) as u8)
        }
        fn deserialize_u16<V: Visitor<'de>>(self, v: V) -> Result<V::Value, E> {
            v.visit_u16(u64::from_le_bytes(self.get8()?) as u16)
        }
        fn deserialize_u32<V: Visitor<'de>>(self, v: V) -> Result<V::Value, E> {
            v.visit_u32(u64::from_le_bytes(self.get8()?) as u32)
        }
        fn deserialize_u64<V: Visitor<'de>>(self, v: V) -> Result<V::Value, E> {
            v.visit_u64(u64::from_le_bytes(self.get8()?))
        }
        fn deserialize_f32<V: Visitor<'de>>(self, v: V) -> Result<V::Value, E> {
            v.visit_f32(f32::from_bits(u64::from_le_bytes(self.get8()?) as u32))
        }
        fn deserialize_option<V: Visitor<'de>>(self, v: V) -> Result<V::Value, E> {
            match u64::from_le_bytes(self.get8()?) {
                0 => v.visit_none(),
                1 => v.visit_some(self),
                _ => Err(E),
            }
        }
        fn deserialize_unit<V: Visitor<'de>>(self, v: V) -> Result<V::Value, E> {
            v.visit_unit()
        }
        fn deserialize_unit_struct<V: Visitor<'de>>(self, _: &'static str, v: V) -> Result<V::Value, E> {
            v.visit_unit()
        }
        serde::forward_to_deserialize_any! {
            char str string bytes byte_buf map enum identifier ignored_any
        }
    }
}

mod with_serde {
    use super::fmt::*;
    use super::*;
    use serde::{Deserialize, Serialize};

    fn ser<T: Serialize>(v: &T, enc: &mut Enc) -> bool {
        v.serialize(&mut *enc).is_ok()
    }

    fn roundtrip<T: Bits + Serialize + for<'de> Deserialize<'de>>() {
        let v = T::make();
        let mut enc = Enc { buf: [0u8; CAP], pos: 0 };
        assert!(ser(&v, &mut enc), "serialization failed");
        let mut dec = Dec { buf: &enc.buf, pos: 0, end: enc.pos, expect_seq: 0 };
        let w = T::deserialize(&mut dec);
        assert!(w.is_ok(), "deserialization of the serialized value failed");
        assert!(dec.pos == enc.pos, "deserialization did not consume exactly what was written");
        let w = w.unwrap();
        let (mut a, mut b) = (Vec::new(), Vec::new());
        v.bits(&mut a);
        w.bits(&mut b);
        assert!(same_bits(&a, &b), "serde round trip changed a number");
        kani::cover!(true, "the round trip completes");
        kani::cover!(enc.pos == 8 * a.len(), "opt: payload is 8 bytes per number");
        core::mem::forget(a);
        core::mem::forget(b);
    }

    fn roundtrip_pw<T: Bits + Serialize + for<'de> Deserialize<'de>, const N: usize>() {
        let v = make_pw::<T, N>();
        let mut enc = Enc { buf: [0u8; CAP], pos: 0 };
        assert!(ser(&v, &mut enc), "serialization failed");
        let mut dec = Dec { buf: &enc.buf, pos: 0, end: enc.pos, expect_seq: N };
        let w = Piecewise::<T>::deserialize(&mut dec);
        assert!(w.is_ok(), "deserialization of the serialized value failed");
        assert!(dec.pos == enc.pos, "deserialization did not consume exactly what was written");
        let w = w.unwrap();
        let (mut a, mut b) = (Vec::new(), Vec::new());
        pw_bits(&v, &mut a);
        pw_bits(&w, &mut b);
        assert!(same_bits(&a, &b), "serde round trip changed a number or the number of segments");
        kani::cover!(w.segments.len() == N, "N segments came back");
        core::mem::forget(a);
        core::mem::forget(b);
        core::mem::forget(v);
        core::mem::forget(w);
    }

    macro_rules! rt {
        ($name:ident, $t:ty, $unw:expr) => {
            #[kani::proof]
            #[kani::unwind($unw)]
            pub(crate) fn $name() {
                roundtrip::<$t>()
            }
        };
    }
    macro_rules! rtpw {
        ($name:ident, $t:ty, $n:expr, $unw:expr) => {
            #[kani::proof]
            #[kani::unwind($unw)]
            pub(crate) fn $name() {
                roundtrip_pw::<$t, $n>()
            }
        };
    }
    rt!(serde_knot, Knot, 12);
    rt!(serde_poly0, Poly0, 12);
    rt!(serde_poly1, Poly1, 12);
    rt!(serde_poly2, Poly2, 12);
    rt!(serde_poly3, Poly3, 12);
    rt!(serde_poly4, Poly4, 12);
    rt!(serde_poly5, Poly5, 12);
    rt!(serde_poly6, Poly6, 12);
    rt!(serde_poly7, Poly7, 12);
    rt!(serde_poly8, Poly8, 14);
    rt!(serde_log_poly1, Log<Poly1>, 12);
    rt!(serde_log_poly3, Log<Poly3>, 12);
    rt!(serde_intoflog_poly0, IntOfLog<Poly0>, 12);
    rt!(serde_intoflog_poly2, IntOfLog<Poly2>, 12);
    rt!(serde_intoflogpoly4, IntOfLogPoly4, 12);
    rt!(serde_segment_poly1, Segment<Poly1>, 12);
    rt!(serde_segment_intoflogpoly4, Segment<IntOfLogPoly4>, 12);
    rtpw!(serde_pw_poly0_n0, Poly0, 0, 12);
    rtpw!(serde_pw_poly0_n1, Poly0, 1, 12);
    rtpw!(serde_pw_poly0_n2, Poly0, 2, 12);
    rtpw!(serde_pw_poly0_n3, Poly0, 3, 12);
    rtpw!(serde_pw_poly1_n2, Poly1, 2, 12);
}
