//! C01 (anchor) — "exactly whenever every partial term is exactly representable": the compiled evaluators, including
//! the real fused multiply-add, on symbolic small integers (|c| <= 4, |x| <= 3), compared with integer arithmetic.
use piecewise_polynomial::*;

fn small(bound: i64) -> i64 {
    let v: i8 = kani::any();
    let v = v as i64;
    kani::assume(v >= -bound && v <= bound);
    v
}

fn reference(c: &[i64], x: i64) -> i64 {
    let mut acc = 0i64;
    let mut p = 1i64;
    let mut i = 0;
    while i < c.len() {
        acc += c[i] * p;
        p *= x;
        i += 1;
    }
    acc
}

macro_rules! exact {
    ($name:ident, $t:ident, $n:expr, $unw:expr) => {
        #[kani::proof]
        #[kani::unwind($unw)]
        fn $name() {
            let mut ci = [0i64; $n];
            let mut cf = [0f64; $n];
            let mut i = 0;
            while i < $n {
                ci[i] = small(4);
                cf[i] = ci[i] as f64;
                i += 1;
            }
            let x = small(3);
            let got = $t(cf).evaluate(x as f64);
            let want = reference(&ci, x);
            assert!(got == want as f64, "evaluation of exactly representable terms is not exact");
            kani::cover!(x < 0 && want < 0, "negative argument and negative value");
        }
    };
}
exact!(c01_exact_poly1, Poly1, 2, 4);
exact!(c01_exact_poly2, Poly2, 3, 5);
exact!(c01_exact_poly3, Poly3, 4, 6);
exact!(c01_exact_poly4, Poly4, 5, 7);
exact!(c01_exact_poly5, Poly5, 6, 8);
exact!(c01_exact_poly6, Poly6, 7, 9);
exact!(c01_exact_poly7, Poly7, 8, 10);
exact!(c01_exact_poly8, Poly8, 9, 11);

#[kani::proof]
#[kani::unwind(7)]
fn c01_exact_polyn4() {
    let mut ci = [0i64; 4];
    let mut v = Vec::with_capacity(4);
    let mut i = 0;
    while i < 4 {
        ci[i] = small(4);
        v.push(ci[i] as f64);
        i += 1;
    }
    let x = small(3);
    let got = PolyN(v).evaluate(x as f64);
    assert!(got == reference(&ci, x) as f64, "PolyN evaluation of exactly representable terms is not exact");
    let empty = PolyN(Vec::new());
    assert!(empty.evaluate(x as f64) == 0.0, "empty PolyN is not 0");
}
