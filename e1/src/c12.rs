//! C12 — evaluate_v yields lazily, in order, the value chosen for the running maximum of the arguments.
use crate::common::*;
use piecewise_polynomial::*;
use std::cell::Cell;

struct Counting<'c, const Q: usize> {
    xs: [f64; Q],
    i: usize,
    pulled: &'c Cell<usize>,
}

impl<'c, const Q: usize> Iterator for Counting<'c, Q> {
    type Item = f64;
    fn next(&mut self) -> Option<f64> {
        if self.i < Q {
            let x = self.xs[self.i];
            self.i += 1;
            self.pulled.set(self.pulled.get() + 1);
            Some(x)
        } else {
            None
        }
    }
}

fn check<const N: usize, const Q: usize>(non_decreasing_only: bool) {
    let ends: [f64; N] = kani::any();
    let ids: [u64; N] = kani::any();
    kani::assume(non_decreasing_non_nan(&ends));
    let pw = build_probe(&ends, &ids);
    let xs: [f64; Q] = kani::any();
    let mut q = 0;
    while q < Q {
        kani::assume(!xs[q].is_nan());
        if non_decreasing_only && q > 0 {
            kani::assume(xs[q - 1] <= xs[q]);
        }
        q += 1;
    }
    let pulled = Cell::new(0usize);
    let mut out = pw.evaluate_v(Counting { xs, i: 0, pulled: &pulled });
    // laziness: nothing is pulled before the first output is requested
    assert!(pulled.get() == 0, "evaluate_v pulled input eagerly");
    let mut run_max = f64::NEG_INFINITY;
    let mut moved_back = false;
    let mut k = 0;
    while k < Q {
        let got = out.next();
        assert!(got.is_some(), "evaluate_v ended early");
        assert!(pulled.get() == k + 1, "after k outputs exactly k inputs were pulled");
        let x = xs[k];
        if x > run_max {
            run_max = x;
        } else if x < run_max {
            moved_back = true;
        }
        let idx = spec_index(&ends, run_max);
        let want = Probe(ids[idx]).evaluate(x);
        assert!(got.unwrap().to_bits() == want.to_bits(), "evaluate_v: wrong segment or argument");
        if non_decreasing_only {
            // the non-decreasing case is pointwise evaluation
            assert!(got.unwrap().to_bits() == pw.evaluate(x).to_bits(), "evaluate_v differs from evaluate");
        }
        k += 1;
    }
    assert!(out.next().is_none(), "evaluate_v yields more outputs than inputs");
    assert!(pulled.get() == Q, "evaluate_v pulled a wrong number of inputs");
    kani::cover!(non_decreasing_only || Q < 2 || N < 2 || (moved_back && spec_index(&ends, run_max) > spec_index(&ends, xs[Q - 1])),
        "a backward argument that direct evaluation would place in an earlier segment");
    kani::cover!(N < 2 || xs[0] == ends[0], "argument equal to a breakpoint");
}

macro_rules! inst {
    ($name:ident, $n:expr, $q:expr, $nd:expr, $unw:expr) => {
        #[kani::proof]
        #[kani::unwind($unw)]
        fn $name() {
            check::<$n, $q>($nd)
        }
    };
}

inst!(c12_any_n1_q3, 1, 3, false, 5);
inst!(c12_any_n2_q3, 2, 3, false, 5);
inst!(c12_any_n3_q3, 3, 3, false, 5);
inst!(c12_any_n4_q4, 4, 4, false, 6);
inst!(c12_any_n5_q3, 5, 3, false, 7);
inst!(c12_nondecr_n3_q3, 3, 3, true, 5);
inst!(c12_nondecr_n4_q4, 4, 4, true, 6);
