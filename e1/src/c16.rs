//! C16 — evaluation accepts every f64; public operations do not panic on well-formed finite input; the documented
//! rejections are reachable (so the preconditions are not vacuous).
use crate::common::*;
use piecewise_polynomial::*;

fn any_f64_accepted<const N: usize>() {
    let ends: [f64; N] = kani::any();
    let ids: [u64; N] = kani::any();
    kani::assume(non_decreasing_non_nan(&ends));
    let pw = build_probe(&ends, &ids);
    let x: f64 = kani::any(); // NaN, +-inf included
    let y: f64 = kani::any();
    let _ = pw.evaluate(x);
    let mut ev = PiecewiseEvaluator::new(&pw.segments);
    let _ = ev.evaluate(x);
    let _ = ev.evaluate(y);
    let mut it = pw.evaluate_v([x, y]);
    let a = it.next();
    let b = it.next();
    assert!(a.is_some() && b.is_some() && it.next().is_none(), "evaluate_v lost or invented an output");
    kani::cover!(x.is_nan() && !y.is_nan(), "NaN then a number");
    kani::cover!(x == f64::INFINITY && y == f64::NEG_INFINITY, "+inf then -inf");
}

macro_rules! anyf {
    ($name:ident, $n:expr, $unw:expr) => {
        #[kani::proof]
        #[kani::unwind($unw)]
        fn $name() {
            any_f64_accepted::<$n>()
        }
    };
}
anyf!(c16_any_f64_n1, 1, 4);
anyf!(c16_any_f64_n2, 2, 5);
anyf!(c16_any_f64_n3, 3, 6);

// ---- documented rejections are reachable
#[kani::proof]
#[kani::should_panic]
#[kani::unwind(3)]
fn c16_reject_linear_one_knot() {
    let k = [Knot { x: kani::any(), y: kani::any() }];
    let _ = linear(&k);
}

#[kani::proof]
#[kani::should_panic]
#[kani::unwind(4)]
fn c16_reject_spline_two_knots() {
    let k = [Knot { x: 0.0, y: kani::any() }, Knot { x: 1.0, y: kani::any() }];
    let _ = constrained_spline(&k);
}

#[kani::proof]
#[kani::should_panic]
#[kani::unwind(3)]
fn c16_reject_empty_evaluate() {
    let pw: Piecewise<Probe> = Piecewise { segments: Vec::new() };
    let _ = pw.evaluate(kani::any());
}

#[kani::proof]
#[kani::should_panic]
#[kani::unwind(3)]
fn c16_reject_empty_evaluator() {
    let pw: Piecewise<Probe> = Piecewise { segments: Vec::new() };
    let _ = PiecewiseEvaluator::new(&pw.segments);
}

#[kani::proof]
#[kani::should_panic]
#[kani::unwind(3)]
fn c16_reject_empty_evaluate_v() {
    let pw: Piecewise<Probe> = Piecewise { segments: Vec::new() };
    let mut it = pw.evaluate_v([1.0]);
    let _ = it.next();
}

#[kani::proof]
#[kani::should_panic]
#[kani::unwind(4)]
fn c16_reject_nan_breakpoint_in_add() {
    let f = Piecewise { segments: vec![Segment { end: f64::NAN, poly: Pair { f: 0, g: 0, op: 0 } }] };
    let g = Piecewise { segments: vec![Segment { end: 1.0, poly: Pair { f: 0, g: 0, op: 0 } }] };
    let _ = &f + &g;
}

// ---- public operations on well-formed input, generic code with logging pieces (no float arithmetic in the way)
fn ops_no_panic<const N: usize, const M: usize>() {
    let ef: [f64; N] = kani::any();
    let eg: [f64; M] = kani::any();
    kani::assume(non_decreasing_non_nan(&ef));
    kani::assume(non_decreasing_non_nan(&eg));
    let ids: [u64; N] = kani::any();
    let accs: [u64; N] = kani::any();
    let s: f64 = kani::any();
    let pw = build_oplog(&ef, &ids, &accs);
    let k0 = Knot { x: kani::any(), y: kani::any() };
    let a = pw.clone() * s;
    let mut b = pw.clone();
    b *= s;
    let c = -pw.clone();
    let mut d = pw.clone();
    d.translate(s);
    let e = pw.derivative();
    let f = pw.integral(k0);
    let g = pw.indefinite();
    assert!(a.segments.len() == N && b.segments.len() == N && c.segments.len() == N && d.segments.len() == N);
    assert!(e.segments.len() == N && f.segments.len() == N && g.segments.len() == N);
    // merges
    let mut pf = Vec::with_capacity(N);
    let mut i = 0;
    while i < N {
        pf.push(Segment { end: ef[i], poly: Pair { f: i as u32, g: 0, op: 0 } });
        i += 1;
    }
    let mut pg = Vec::with_capacity(M);
    i = 0;
    while i < M {
        pg.push(Segment { end: eg[i], poly: Pair { f: 0, g: i as u32, op: 0 } });
        i += 1;
    }
    let (pf, pg) = (Piecewise { segments: pf }, Piecewise { segments: pg });
    let r1 = &pf + &pg;
    let r2 = &pf - &pg;
    assert!(r1.segments.len() >= 1 && r2.segments.len() >= 1);
    kani::cover!(true, "all operations returned");
}

macro_rules! ops {
    ($name:ident, $n:expr, $m:expr, $unw:expr) => {
        #[kani::proof]
        #[kani::unwind($unw)]
        fn $name() {
            ops_no_panic::<$n, $m>()
        }
    };
}
ops!(c16_ops_1_1, 1, 1, 5);
ops!(c16_ops_2_2, 2, 2, 7);
ops!(c16_ops_3_2, 3, 2, 8);

// ---- constructors on finite knots: structure and no panic (full f64 domain)
fn linear_structure<const N: usize>() {
    let mut knots = [Knot { x: 0.0, y: 0.0 }; N];
    let mut i = 0;
    while i < N {
        let x: f64 = kani::any();
        let y: f64 = kani::any();
        kani::assume(x.is_finite() && y.is_finite());
        knots[i] = Knot { x, y };
        i += 1;
    }
    let pw = linear(&knots);
    assert!(pw.segments.len() == N - 1, "linear: wrong number of segments");
    let mut run = knots[0].x;
    i = 0;
    while i + 1 < N {
        if knots[i + 1].x > run {
            run = knots[i + 1].x;
        }
        assert!(pw.segments[i].end == run, "linear: end is not the running maximum of the abscissae");
        if i > 0 {
            assert!(pw.segments[i - 1].end <= pw.segments[i].end, "linear: ends decrease");
        }
        i += 1;
    }
    kani::cover!(N < 3 || knots[1].x < knots[0].x, "out-of-order abscissa");
}

macro_rules! lin {
    ($name:ident, $n:expr, $unw:expr) => {
        #[kani::proof]
        #[kani::unwind($unw)]
        fn $name() {
            linear_structure::<$n>()
        }
    };
}
lin!(c16_linear_n2, 2, 4);
lin!(c16_linear_n3, 3, 5);
lin!(c16_linear_n4, 4, 6);

fn spline_structure<const N: usize>() {
    let mut knots = [Knot { x: 0.0, y: 0.0 }; N];
    let mut i = 0;
    while i < N {
        let x: f64 = kani::any();
        let y: f64 = kani::any();
        kani::assume(x.is_finite() && y.is_finite());
        if i > 0 {
            kani::assume(knots[i - 1].x < x);
        }
        knots[i] = Knot { x, y };
        i += 1;
    }
    let pw = constrained_spline(&knots);
    assert!(pw.segments.len() == N - 1, "constrained_spline: wrong number of segments");
    i = 0;
    while i + 1 < N {
        assert!(pw.segments[i].end.to_bits() == knots[i + 1].x.to_bits(), "constrained_spline: end is not the right abscissa verbatim");
        i += 1;
    }
    kani::cover!(true, "constrained_spline returned");
}

macro_rules! spl {
    ($name:ident, $n:expr, $unw:expr) => {
        #[kani::proof]
        #[kani::unwind($unw)]
        fn $name() {
            spline_structure::<$n>()
        }
    };
}
spl!(c16_spline_n3, 3, 6);
spl!(c16_spline_n4, 4, 7);
