//! C19 — <Piecewise<T> as Arbitrary>::arbitrary fails or returns a well-formed function; never panics.
//!
//! Byte layout consumed by Vec<f64>::arbitrary: [continue?][8 bytes] ... [stop].  A fully symbolic byte string makes
//! the remaining length symbolic after path merging (CBMC does not finish), so every harness fixes the SHAPE: at most
//! K elements (control bytes concrete: 1 = continue, 0 = stop) and a concrete total length L (covering truncation at
//! every structural position); all payload bytes are symbolic.  `c19_bool_low_bit` shows that only the low bit of a
//! control byte matters, which makes the concrete control bytes lossless.
use arbitrary::{Arbitrary, Unstructured};
use piecewise_polynomial::*;

#[kani::proof]
#[kani::unwind(3)]
fn c19_bool_low_bit() {
    let b: u8 = kani::any();
    let bytes = [b];
    let mut u = Unstructured::new(&bytes);
    let v = bool::arbitrary(&mut u).unwrap();
    assert!(v == (b & 1 == 1), "bool::arbitrary depends on more than the low bit");
    let empty: [u8; 0] = [];
    let mut u2 = Unstructured::new(&empty);
    assert!(!bool::arbitrary(&mut u2).unwrap(), "bool::arbitrary on empty input is not false");
}

fn check<T, const K: usize, const L: usize>()
where
    T: for<'a> Arbitrary<'a> + Evaluate,
{
    let mut bytes: [u8; L] = kani::any();
    let mut j = 0;
    while j < K {
        if 9 * j < L {
            bytes[9 * j] = 1;
        }
        j += 1;
    }
    if 9 * K < L {
        bytes[9 * K] = 0;
    }
    let mut u = Unstructured::new(&bytes);
    let r = <Piecewise<T> as Arbitrary>::arbitrary(&mut u);
    match r {
        Err(_) => {}
        Ok(pw) => {
            let n = pw.segments.len();
            assert!(n >= 1, "Arbitrary returned a function without segments");
            assert!(n <= K, "more segments than list elements");
            let mut i = 0;
            while i < n {
                assert!(pw.segments[i].end.is_normal(), "breakpoint is not a normal float");
                if i > 0 {
                    assert!(pw.segments[i - 1].end <= pw.segments[i].end, "breakpoints not sorted");
                }
                i += 1;
            }
            let x: f64 = kani::any();
            let a = pw.evaluate(x);
            let mut ev = PiecewiseEvaluator::new(&pw.segments);
            let b = ev.evaluate(x);
            let c = pw.evaluate_v(core::iter::once(x)).next().unwrap();
            if !x.is_nan() {
                assert!(a.to_bits() == b.to_bits(), "evaluator chooses another segment than direct evaluation");
                assert!(a.to_bits() == c.to_bits(), "evaluate_v chooses another segment than direct evaluation");
            }
            if K >= 1 && L >= 9 * K {
                kani::cover!(n == K, "opt: Ok with K segments");
            }
        }
    }
    kani::cover!(true, "arbitrary returned");
}

macro_rules! inst {
    ($name:ident, $t:ty, $k:expr, $l:expr) => {
        #[kani::proof]
        #[kani::unwind(10)]
        fn $name() {
            check::<$t, $k, $l>()
        }
    };
}

// K = 0: empty list (always Err)
inst!(c19_p0_k0_l0, Poly0, 0, 0);
inst!(c19_p0_k0_l1, Poly0, 0, 1);
inst!(c19_p0_k0_l5, Poly0, 0, 5);
// K = 1
inst!(c19_p0_k1_l1, Poly0, 1, 1);
inst!(c19_p0_k1_l5, Poly0, 1, 5);
inst!(c19_p0_k1_l9, Poly0, 1, 9);
inst!(c19_p0_k1_l10, Poly0, 1, 10);
inst!(c19_p0_k1_l14, Poly0, 1, 14);
inst!(c19_p0_k1_l18, Poly0, 1, 18);
inst!(c19_p0_k1_l19, Poly0, 1, 19);
// K = 2
inst!(c19_p0_k2_l10, Poly0, 2, 10);
inst!(c19_p0_k2_l14, Poly0, 2, 14);
inst!(c19_p0_k2_l18, Poly0, 2, 18);
inst!(c19_p0_k2_l19, Poly0, 2, 19);
inst!(c19_p0_k2_l23, Poly0, 2, 23);
inst!(c19_p0_k2_l27, Poly0, 2, 27);
inst!(c19_p0_k2_l35, Poly0, 2, 35);
inst!(c19_p0_k2_l36, Poly0, 2, 36);
// K = 3
inst!(c19_p0_k3_l19, Poly0, 3, 19);
inst!(c19_p0_k3_l27, Poly0, 3, 27);
inst!(c19_p0_k3_l28, Poly0, 3, 28);
inst!(c19_p0_k3_l36, Poly0, 3, 36);
inst!(c19_p0_k3_l44, Poly0, 3, 44);
inst!(c19_p0_k3_l52, Poly0, 3, 52);
inst!(c19_p0_k3_l53, Poly0, 3, 53);
