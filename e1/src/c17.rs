//! C17 (anchor) — the contract E2 assumes for approx's array / slice impls (element-wise conjunction, equal lengths),
//! checked on the REAL approx code for small types: additions and comparisons only (relative_eq contains a product per
//! pair and does not finish under CBMC; it is covered through the uninterpreted model only).
use approx::AbsDiffEq;
use piecewise_polynomial::*;

fn nn() -> f64 {
    let x: f64 = kani::any();
    kani::assume(!x.is_nan());
    x
}

#[kani::proof]
#[kani::unwind(4)]
fn c17_absdiff_poly1() {
    let (a0, a1, b0, b1, eps) = (nn(), nn(), nn(), nn(), nn());
    let r = Poly1([a0, a1]).abs_diff_eq(&Poly1([b0, b1]), eps);
    let want = a0.abs_diff_eq(&b0, eps) && a1.abs_diff_eq(&b1, eps);
    assert!(r == want, "Poly1::abs_diff_eq is not the conjunction over its two coefficients");
    kani::cover!(r, "approximately equal");
    kani::cover!(!r && a0.abs_diff_eq(&b0, eps), "falsified by the second coefficient alone");
}

#[kani::proof]
#[kani::unwind(4)]
fn c17_absdiff_segment_poly0() {
    let (e0, v0, e1, v1, eps) = (nn(), nn(), nn(), nn(), nn());
    let r = Segment { end: e0, poly: Poly0(v0) }.abs_diff_eq(&Segment { end: e1, poly: Poly0(v1) }, eps);
    let want = e0.abs_diff_eq(&e1, eps) && v0.abs_diff_eq(&v1, eps);
    assert!(r == want, "Segment::abs_diff_eq is not the conjunction over end and piece");
    kani::cover!(!r && e0.abs_diff_eq(&e1, eps), "falsified by the piece alone");
}

#[kani::proof]
#[kani::unwind(5)]
fn c17_absdiff_piecewise_poly0_lengths() {
    let (e0, v0, e1, v1, e2, v2, eps) = (nn(), nn(), nn(), nn(), nn(), nn(), nn());
    let one = Piecewise { segments: vec![Segment { end: e0, poly: Poly0(v0) }] };
    let two = Piecewise { segments: vec![Segment { end: e1, poly: Poly0(v1) }, Segment { end: e2, poly: Poly0(v2) }] };
    assert!(!one.abs_diff_eq(&two, eps), "piecewise functions with different numbers of pieces compared approximately equal");
    assert!(!two.abs_diff_eq(&one, eps), "piecewise functions with different numbers of pieces compared approximately equal");
    let r = two.abs_diff_eq(&two.clone(), 0.0);
    kani::cover!(r, "reflexive on these values");
}

#[kani::proof]
#[kani::unwind(5)]
fn c17_absdiff_piecewise_poly0_pairs() {
    let (e0, v0, e1, v1, f0, w0, f1, w1, eps) = (nn(), nn(), nn(), nn(), nn(), nn(), nn(), nn(), nn());
    let a = Piecewise { segments: vec![Segment { end: e0, poly: Poly0(v0) }, Segment { end: e1, poly: Poly0(v1) }] };
    let b = Piecewise { segments: vec![Segment { end: f0, poly: Poly0(w0) }, Segment { end: f1, poly: Poly0(w1) }] };
    let r = a.abs_diff_eq(&b, eps);
    let want = e0.abs_diff_eq(&f0, eps) && v0.abs_diff_eq(&w0, eps) && e1.abs_diff_eq(&f1, eps) && v1.abs_diff_eq(&w1, eps);
    assert!(r == want, "Piecewise::abs_diff_eq is not the conjunction over all breakpoints and pieces");
    kani::cover!(!r && e0.abs_diff_eq(&f0, eps) && v0.abs_diff_eq(&w0, eps) && e1.abs_diff_eq(&f1, eps), "falsified by the last number alone");
}
