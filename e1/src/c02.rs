//! C02 — Piecewise::evaluate selects the half-open segment containing x.
use crate::common::*;
use piecewise_polynomial::*;

fn check<const N: usize>() {
    let ends: [f64; N] = kani::any();
    let ids: [u64; N] = kani::any();
    kani::assume(non_decreasing_non_nan(&ends));
    let x: f64 = kani::any();
    kani::assume(!x.is_nan());
    let pw = build_probe(&ends, &ids);

    let got = pw.evaluate(x);

    let k = spec_index(&ends, x);
    let want = Probe(ids[k]).evaluate(x);
    assert!(got.to_bits() == want.to_bits(), "C02: wrong segment selected");

    // reachability witnesses
    kani::cover!(N == 1 || x == ends[0], "x equal to first end");
    kani::cover!(x > ends[N - 1], "x beyond all ends");
    kani::cover!(x == ends[N - 1], "x equal to last end");
    kani::cover!(N == 1 || (ends[0] == ends[N - 1] && x == ends[0]), "all ends equal and hit exactly");
    kani::cover!(x == f64::INFINITY, "x = +inf");
    kani::cover!(x == f64::NEG_INFINITY, "x = -inf");
}

/// Same claim with a real piece type: Poly0 (evaluate is a field read).
fn check_poly0<const N: usize>() {
    let ends: [f64; N] = kani::any();
    let vals: [f64; N] = kani::any();
    kani::assume(non_decreasing_non_nan(&ends));
    let x: f64 = kani::any();
    kani::assume(!x.is_nan());
    let mut segments = Vec::with_capacity(N);
    let mut i = 0;
    while i < N {
        segments.push(Segment { end: ends[i], poly: Poly0(vals[i]) });
        i += 1;
    }
    let pw = Piecewise { segments };
    let got = pw.evaluate(x);
    let k = spec_index(&ends, x);
    assert!(got.to_bits() == vals[k].to_bits(), "C02: wrong segment selected (Poly0)");
    kani::cover!(x == ends[N - 1], "x equal to last end");
}

macro_rules! inst {
    ($name:ident, $f:ident, $n:expr, $unw:expr) => {
        #[kani::proof]
        #[kani::unwind($unw)]
        fn $name() {
            $f::<$n>()
        }
    };
}

inst!(c02_probe_n1, check, 1, 3);
inst!(c02_probe_n2, check, 2, 4);
inst!(c02_probe_n3, check, 3, 5);
inst!(c02_probe_n4, check, 4, 6);
inst!(c02_probe_n5, check, 5, 7);
inst!(c02_probe_n6, check, 6, 8);
inst!(c02_poly0_n3, check_poly0, 3, 5);
