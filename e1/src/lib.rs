//! Kani proof harnesses (engine E1) over the compiled piecewise_polynomial crate.
//! Every harness is instantiated per concrete size; see /verif/DESIGN.md §2.1.
#![allow(dead_code)]
#![allow(clippy::all)]

pub mod common;

#[cfg(kani)]
mod c01;
#[cfg(kani)]
mod c02;
#[cfg(kani)]
mod c03;
#[cfg(kani)]
mod c11;
#[cfg(kani)]
mod c12;
#[cfg(kani)]
mod c13;
#[cfg(kani)]
mod c15;
#[cfg(kani)]
mod c16;
#[cfg(kani)]
mod c17;
#[cfg(kani)]
mod c18;
#[cfg(kani)]
mod c19;
