//! C11 (structure) — piecewise integration follows the running-knot recurrence, piece by piece.
use crate::common::*;
use piecewise_polynomial::*;

/// The property's recurrence, written with the piece type's own operations.
fn spec<const N: usize>(ends: &[f64; N], ids: &[u64; N], accs: &[u64; N], k0: Knot, first_untranslated: bool) -> [Segment<OpLog>; N] {
    let mut out = [Segment { end: 0.0, poly: OpLog { id: 0, acc: 0 } }; N];
    let mut knot = k0;
    let mut i = 0;
    while i < N {
        let mut u = OpLog { id: ids[i], acc: accs[i] }.indefinite();
        if !(first_untranslated && i == 0) {
            let c = knot.y - u.evaluate(knot.x);
            u.translate(c);
        }
        out[i] = Segment { end: ends[i], poly: u };
        knot = Knot { x: ends[i], y: u.evaluate(ends[i]) };
        i += 1;
    }
    out
}

fn same(a: &Segment<OpLog>, b: &Segment<OpLog>) -> bool {
    a.end.to_bits() == b.end.to_bits() && a.poly.id == b.poly.id && a.poly.acc == b.poly.acc
}

#[derive(Clone, Copy, PartialEq)]
enum Mode {
    Integral,
    Indefinite,
    IterRef,
    IterVal,
}

fn check<const N: usize>(mode: Mode) {
    let ends: [f64; N] = kani::any();
    let ids: [u64; N] = kani::any();
    let accs: [u64; N] = kani::any();
    let mut i = 0;
    while i < N {
        kani::assume(!ends[i].is_nan());
        i += 1;
    }
    let k0 = Knot { x: kani::any(), y: kani::any() };
    kani::assume(k0.y.is_finite() && !k0.x.is_nan());
    let pw = build_oplog(&ends, &ids, &accs);
    let want = spec(&ends, &ids, &accs, k0, mode == Mode::Indefinite);
    let got: Vec<Segment<OpLog>> = match mode {
        Mode::Integral => pw.integral(k0).segments,
        Mode::Indefinite => pw.indefinite().segments,
        Mode::IterRef => Segment::integral_iter_ref(&pw.segments, k0).collect(),
        Mode::IterVal => Segment::integral_iter(pw.segments.clone(), k0).collect(),
    };
    assert!(got.len() == N, "number of pieces changed by integration");
    let mut j = 0;
    while j < N {
        assert!(same(&got[j], &want[j]), "piece differs from the running-knot recurrence");
        j += 1;
    }
    // first piece passes through k0: its additive constant is k0.y - U0(k0.x) (checked bit for bit above);
    // adjacent pieces agree at the breakpoint up to the one rounding of that subtraction
    kani::cover!(got.len() == N && k0.x == ends[0], "harness reaches its end; knot on the first breakpoint");
}

#[kani::proof]
#[kani::unwind(3)]
fn c11_indefinite_empty() {
    let pw: Piecewise<OpLog> = Piecewise { segments: Vec::new() };
    assert!(pw.indefinite().segments.is_empty(), "indefinite() of the empty function is not empty");
}

macro_rules! inst {
    ($name:ident, $n:expr, $mode:expr, $unw:expr) => {
        #[kani::proof]
        #[kani::unwind($unw)]
        fn $name() {
            check::<$n>($mode)
        }
    };
}

inst!(c11_integral_n1, 1, Mode::Integral, 4);
inst!(c11_integral_n2, 2, Mode::Integral, 5);
inst!(c11_integral_n3, 3, Mode::Integral, 6);
inst!(c11_integral_n4, 4, Mode::Integral, 7);
inst!(c11_indefinite_n1, 1, Mode::Indefinite, 4);
inst!(c11_indefinite_n2, 2, Mode::Indefinite, 5);
inst!(c11_indefinite_n3, 3, Mode::Indefinite, 6);
inst!(c11_indefinite_n4, 4, Mode::Indefinite, 7);
inst!(c11_iter_ref_n2, 2, Mode::IterRef, 5);
inst!(c11_iter_ref_n3, 3, Mode::IterRef, 6);
inst!(c11_iter_val_n2, 2, Mode::IterVal, 5);
inst!(c11_iter_val_n3, 3, Mode::IterVal, 6);
