//! C15 (and the structure halves of C08 / C11) — per-piece operations on segments and piecewise functions
//! apply the operation to every piece alone and leave number, order and breakpoints bit-identical.
use crate::common::*;
use piecewise_polynomial::*;

#[derive(Clone, Copy, PartialEq)]
pub enum Op {
    Mul,
    MulAssign,
    Neg,
    Translate,
    Derivative,
}

fn expected(p: OpLog, op: Op, arg: f64) -> OpLog {
    match op {
        Op::Mul | Op::MulAssign => OpLog { id: p.id, acc: fold(p.acc, OP_MUL, arg.to_bits()) },
        Op::Neg => OpLog { id: p.id, acc: fold(p.acc, OP_NEG, 0) },
        Op::Translate => OpLog { id: p.id, acc: fold(p.acc, OP_TRANSLATE, arg.to_bits()) },
        Op::Derivative => OpLog { id: p.id, acc: fold(p.acc, OP_DERIV, 0) },
    }
}

fn check_pw<const N: usize>(op: Op) {
    let ends: [f64; N] = kani::any(); // any f64, including NaN: the operations never look at the ends
    let ids: [u64; N] = kani::any();
    let accs: [u64; N] = kani::any();
    let arg: f64 = kani::any();
    let pw = build_oplog(&ends, &ids, &accs);
    let r: Piecewise<OpLog> = match op {
        Op::Mul => pw * arg,
        Op::MulAssign => {
            let mut q = pw;
            q *= arg;
            q
        }
        Op::Neg => -pw,
        Op::Translate => {
            let mut q = pw;
            q.translate(arg);
            q
        }
        Op::Derivative => pw.derivative(),
    };
    assert!(r.segments.len() == N, "number of pieces changed");
    let mut i = 0;
    while i < N {
        assert!(r.segments[i].end.to_bits() == ends[i].to_bits(), "breakpoint changed or pieces reordered");
        let want = expected(OpLog { id: ids[i], acc: accs[i] }, op, arg);
        assert!(r.segments[i].poly.id == want.id, "pieces reordered");
        assert!(r.segments[i].poly.acc == want.acc, "operation not applied to the piece exactly once with the given scalar");
        i += 1;
    }
    kani::cover!(arg == 0.0, "scalar 0");
    kani::cover!(arg == -1.0, "scalar -1");
}

fn check_seg(op: Op, by_ref: bool) {
    let end: f64 = kani::any();
    let p = OpLog { id: kani::any(), acc: kani::any() };
    let arg: f64 = kani::any();
    let seg = Segment { end, poly: p };
    let r: Segment<OpLog> = match op {
        Op::Mul => seg * arg,
        Op::MulAssign => {
            let mut q = seg;
            if by_ref {
                let mut rq = &mut q;
                rq *= arg;
            } else {
                q *= arg;
            }
            q
        }
        Op::Translate => {
            let mut q = seg;
            q.translate(arg);
            q
        }
        Op::Derivative => seg.derivative(),
        Op::Neg => seg, // no Neg for Segment
    };
    let want = if op == Op::Neg { p } else { expected(p, op, arg) };
    assert!(r.end.to_bits() == end.to_bits(), "segment end changed");
    assert!(r.poly.id == want.id && r.poly.acc == want.acc, "operation not applied exactly once");
    // the segment evaluates through its piece
    let x: f64 = kani::any();
    assert!(r.evaluate(x).to_bits() == want.evaluate(x).to_bits(), "Segment::evaluate does not delegate to the piece");
}

macro_rules! pw {
    ($name:ident, $n:expr, $op:expr, $unw:expr) => {
        #[kani::proof]
        #[kani::unwind($unw)]
        fn $name() {
            check_pw::<$n>($op)
        }
    };
}
macro_rules! seg {
    ($name:ident, $op:expr, $r:expr) => {
        #[kani::proof]
        #[kani::unwind(3)]
        fn $name() {
            check_seg($op, $r)
        }
    };
}

pw!(pw_mul_n1, 1, Op::Mul, 3);
pw!(pw_mul_n2, 2, Op::Mul, 4);
pw!(pw_mul_n3, 3, Op::Mul, 5);
pw!(pw_mul_n4, 4, Op::Mul, 6);
pw!(pw_mulassign_n1, 1, Op::MulAssign, 3);
pw!(pw_mulassign_n2, 2, Op::MulAssign, 4);
pw!(pw_mulassign_n3, 3, Op::MulAssign, 5);
pw!(pw_mulassign_n4, 4, Op::MulAssign, 6);
pw!(pw_neg_n1, 1, Op::Neg, 3);
pw!(pw_neg_n2, 2, Op::Neg, 4);
pw!(pw_neg_n3, 3, Op::Neg, 5);
pw!(pw_neg_n4, 4, Op::Neg, 6);
pw!(pw_translate_n1, 1, Op::Translate, 3);
pw!(pw_translate_n2, 2, Op::Translate, 4);
pw!(pw_translate_n3, 3, Op::Translate, 5);
pw!(pw_translate_n4, 4, Op::Translate, 6);
pw!(pw_derivative_n1, 1, Op::Derivative, 3);
pw!(pw_derivative_n2, 2, Op::Derivative, 4);
pw!(pw_derivative_n3, 3, Op::Derivative, 5);
pw!(pw_derivative_n4, 4, Op::Derivative, 6);
seg!(seg_mul, Op::Mul, false);
seg!(seg_mulassign, Op::MulAssign, false);
seg!(seg_mulassign_ref, Op::MulAssign, true);
seg!(seg_translate, Op::Translate, false);
seg!(seg_derivative, Op::Derivative, false);
