//! C13 — &f + &g and &f - &g are pointwise on the merged breakpoints.
use crate::common::*;
use piecewise_polynomial::*;

fn build_pair<const N: usize>(ends: &[f64; N], left: bool) -> Piecewise<Pair> {
    let mut segments = Vec::with_capacity(N);
    let mut i = 0;
    while i < N {
        let p = if left { Pair { f: i as u32, g: 0xFFFF, op: 0 } } else { Pair { f: 0xFFFF, g: i as u32, op: 0 } };
        segments.push(Segment { end: ends[i], poly: p });
        i += 1;
    }
    Piecewise { segments }
}

fn check<const N: usize, const M: usize>(sub: bool) {
    let ef: [f64; N] = kani::any();
    let eg: [f64; M] = kani::any();
    kani::assume(non_decreasing_non_nan(&ef));
    kani::assume(non_decreasing_non_nan(&eg));
    let f = build_pair(&ef, true);
    let g = build_pair(&eg, false);
    let r = if sub { &f - &g } else { &f + &g };

    let len = r.segments.len();
    assert!(len >= 1 && len <= N + M - 1, "result has a wrong number of pieces");
    // breakpoints: non-decreasing, non-NaN, each drawn from an operand
    let mut i = 0;
    let mut saw_equal_ends = false;
    while i < len {
        let e = r.segments[i].end;
        assert!(!e.is_nan(), "NaN breakpoint in the result");
        if i > 0 {
            assert!(r.segments[i - 1].end <= e, "result breakpoints decrease");
        }
        let mut from_operand = false;
        let mut j = 0;
        while j < N {
            if ef[j].to_bits() == e.to_bits() {
                from_operand = true;
            }
            j += 1;
        }
        j = 0;
        while j < M {
            if eg[j].to_bits() == e.to_bits() {
                from_operand = true;
            }
            j += 1;
        }
        assert!(from_operand, "result breakpoint is not a breakpoint of either operand");
        i += 1;
    }
    // pointwise: at every x the result's piece combines the pieces that f and g select at x
    let x: f64 = kani::any();
    kani::assume(!x.is_nan());
    let mut k = len - 1;
    let mut t = 0;
    let mut found = false;
    while t < len {
        if !found && r.segments[t].end > x {
            k = t;
            found = true;
        }
        t += 1;
    }
    let piece = r.segments[k].poly;
    let kf = spec_index(&ef, x);
    let kg = spec_index(&eg, x);
    assert!(piece.f == kf as u32, "result combines the wrong piece of f at x");
    assert!(piece.g == kg as u32, "result combines the wrong piece of g at x");
    assert!(piece.op == if sub { 2 } else { 1 }, "wrong operator applied to the pieces");
    // and the real evaluation path agrees with this selection (Piecewise::evaluate is C02)
    let mut a = 0;
    while a < N {
        let mut b = 0;
        while b < M {
            if ef[a] == eg[b] {
                saw_equal_ends = true;
            }
            b += 1;
        }
        a += 1;
    }
    kani::cover!(saw_equal_ends, "operands share a breakpoint (Equal branch)");
    kani::cover!(N + M < 3 || len == N + M - 1, "maximal number of pieces");
    kani::cover!(ef[N - 1] < eg[M - 1], "f is exhausted first");
    kani::cover!(ef[N - 1] > eg[M - 1], "g is exhausted first");
    kani::cover!(x >= ef[N - 1] && x >= eg[M - 1], "x beyond every breakpoint");
}

macro_rules! inst {
    ($name:ident, $n:expr, $m:expr, $sub:expr, $unw:expr) => {
        #[kani::proof]
        #[kani::unwind($unw)]
        fn $name() {
            check::<$n, $m>($sub)
        }
    };
}

inst!(c13_add_1_1, 1, 1, false, 4);
inst!(c13_add_1_3, 1, 3, false, 6);
inst!(c13_add_2_2, 2, 2, false, 6);
inst!(c13_add_3_2, 3, 2, false, 7);
inst!(c13_add_3_3, 3, 3, false, 8);
inst!(c13_add_4_2, 4, 2, false, 8);
inst!(c13_add_2_4, 2, 4, false, 8);
inst!(c13_add_4_4, 4, 4, false, 10);
inst!(c13_sub_1_1, 1, 1, true, 4);
inst!(c13_sub_1_3, 1, 3, true, 6);
inst!(c13_sub_2_2, 2, 2, true, 6);
inst!(c13_sub_3_2, 3, 2, true, 7);
inst!(c13_sub_3_3, 3, 3, true, 8);
inst!(c13_sub_4_2, 4, 2, true, 8);
inst!(c13_sub_2_4, 2, 4, true, 8);
inst!(c13_sub_4_4, 4, 4, true, 10);
