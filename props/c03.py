"""C03 — PiecewiseEvaluator agrees with direct evaluation on every query history (engine E1)."""
from e1 import HarnessSpec
from props.e1util import run_e1, replay_cmd

LEVEL = "model_checking"
FUNCS = ["PiecewiseEvaluator::new", "PiecewiseEvaluator::evaluate", "<Piecewise<T> as Evaluate>::evaluate"]


def hist_spec(n, q, nan=False, timeout=600):
    name = ("c03::c16_nan_n%d_q%d" if nan else "c03::c03_n%d_q%d") % (n, q)
    what = ("for all non-NaN non-decreasing ends[%d], all piece ids and all histories of %d consecutive %s queries: "
            "after every %squery the evaluator's result is bit-identical to Piecewise::evaluate and to the spec index "
            "rule" % (n, q, "f64 (NaN allowed)" if nan else "non-NaN f64", "non-NaN " if nan else ""))
    return HarnessSpec(name, what, FUNCS,
                       {"segments": n, "history_length": q, "unwind": max(n, q) + 2,
                        "queries": "any f64 incl. NaN" if nan else "any non-NaN f64"},
                       timeout_s=timeout, mem_gb=14,
                       role="nan-poisons-evaluator" if nan else "history-mismatch")


def specs(tier):
    if tier == "quick":
        sizes = [(1, 3), (2, 3), (3, 3)]
    else:
        sizes = [(1, 3), (2, 3), (3, 3), (4, 4), (5, 3), (3, 5)]
    return [hist_spec(n, q, timeout=300 if tier == "quick" else 1800) for (n, q) in sizes]


def state_specs():
    return [HarnessSpec("c03::c03_state_indep_n%d" % n,
                        "AUXILIARY (stronger than the property, uses the cfg-guarded accessor): for all ends[%d] and all non-NaN l1, l2, x the "
                        "evaluator's state (segments skipped, segments ahead, last-argument bits) after the history (l1, l2, x) equals its state "
                        "after (x) alone -- hence, by induction, after any history; together with the Q=3 harnesses this extends the bounded "
                        "claim to histories of every length for this segment count" % n,
                        FUNCS + ["PiecewiseEvaluator::verif_state (hook)"], {"segments": n, "unwind": n + 3}, timeout_s=1800, mem_gb=14,
                        role="history-state-independence", aux=True) for n in (2, 3, 4)]


def run(rep, tier):
    rep.explanation = ("Bounded model checking of the stateful evaluator against direct evaluation over all histories "
                       "of symbolic non-NaN f64 queries for each concrete (segments, history length).")
    rep.bounds = {"(segments,history)": [list(x) for x in ([(1, 3), (2, 3), (3, 3)] if tier == "quick" else
                                                            [(1, 3), (2, 3), (3, 3), (4, 4), (5, 3), (3, 5)])],
                  "outside": "longer histories / more segments (see history-independence obligation in thorough tier)"}
    run_e1(rep, specs(tier))
    from props import ctrl_obl
    from engine import E2
    e = E2(rep, tier)
    sizes = [(8, 3), (6, 4), (12, 3), (5, 5)] if tier == "quick" else [(8, 3), (6, 4), (12, 3), (5, 5), (10, 4), (24, 3), (6, 5), (8, 4)]
    rep.bounds["(segments,history)_mir"] = [list(x) for x in sizes]
    ctrl_obl.evaluator_obligations(e, [(2, 2), (3, 2)], real=False)
    e.finish()
    import parallel
    parallel.run_parts(rep, tier, ["ev:%d:%d" % (n, q) for (n, q) in sorted(sizes, key=lambda t: -(t[0] ** t[1]))],
                       mir_text=e.mir_text, sources=e.sources)
    if tier == "thorough":
        obs = run_e1(rep, state_specs(), hook=True)
        ok = [o for o in obs if o.status == "discharged"]
        rep.notes.append("history-independence of the evaluator state: %d/%d auxiliary harnesses discharged%s" % (
            len(ok), len(obs), "" if len(ok) == len(obs) else " -- NOT established; the claim is limited to the listed history lengths"))


def run_part(rep, tier, part):
    from props import ctrl_obl
    from engine import E2
    _, n, q = part.split(":")
    e = E2(rep, tier)
    ctrl_obl.evaluator_obligations(e, [(int(n), int(q))], real=True)
    e.finish()


def replay(path):
    if path.endswith(".json"):
        from props.c02 import ctrl_replay
        return ctrl_replay(path)
    return replay_cmd(path)
