"""C07 — polynomial integration yields the antiderivative through the given knot (engine E2)."""
import os
import sys
from fractions import Fraction

import z3

sys.path.insert(0, os.path.join(os.path.dirname(os.path.dirname(os.path.abspath(__file__))), "e2"))
import api
import validate
from domains import FPDomain, RealDomain
from engine import E2, model_value, show
from interp import Unsupported, PathLimit

LEVEL = "proof"
F64 = z3.Float64()
RNE = z3.RNE()


def fpv(x):
    return z3.FPVal(float(x), F64)


def powers(x, n):
    pw = [z3.RealVal(1)]
    for _ in range(n):
        pw.append(pw[-1] * x)
    return pw


def nice_fp(syms):
    return [z3.And(z3.fpLEQ(s, fpv(8.0)), z3.fpGEQ(s, fpv(-8.0))) for s in syms]


def replay_generic(e, ob, requests, expect_fn, statement):
    """expect_fn(replies) -> list of problems ([] = fine)."""
    path = e.write_replay(ob.name, {"kind": "E2-native", "requests": requests, "statement": statement})
    bad = []
    for prof in ("dev", "release"):
        rep = e.native.run([tuple(r) for r in requests], prof)
        if any(isinstance(r, str) and r.startswith("ERR") for r in rep):
            return False, path, "native oracle cannot run the request: %r" % (rep,)
        for msg in expect_fn(rep):
            bad.append("%s build: %s" % (prof, msg))
    if bad:
        return True, path, "; ".join(bad[:4])
    return False, path, "model does not reproduce natively"


def zabs(t):
    return z3.If(t >= 0, t, -t)


def finite(s):
    return z3.And(z3.Not(z3.fpIsNaN(s)), z3.Not(z3.fpIsInf(s)))


def check_indefinite_fp(e, k, seg=False):
    """indefinite(): value-level claims only (signed zeros / NaN payloads are not part of the property):
    FP: constant term == 0, coefficient 1 == c0 (and `end` unchanged), for all finite inputs;
    rounding model: coefficient i+1 within (2u+u^2) relative of c_i/(i+1)  ("within one unit in the last place",
    two roundings allowed so that e.g. c*(1/3) is not an alarm)."""
    ty = ("SP%d" if seg else "P%d") % k
    label = ("Segment<Poly%d>" if seg else "Poly%d") % k
    n = api.type_len(ty)
    names = ["n%d" % i for i in range(n)]
    funcs = ["<Poly%d as HasIntegral>::indefinite" % k] + (["<Segment<T> as HasIntegral>::indefinite"] if seg else [])
    try:
        dom = FPDomain()
        res = api.run(e, dom, "indef", ty, lambda d: [d.sym(nm) for nm in names])
        domr = RealDomain(True)
        resr = api.run(e, domr, "indef", ty, lambda d: [d.sym(nm) for nm in names])
    except (Unsupported, PathLimit) as ex:
        e.not_encoded("%s:indefinite-coefficients" % label, "indefinite() coefficients", ex, funcs)
        return
    p, nums, _ = res[0]
    syms = [z3.FP(nm, F64) for nm in names]
    cs = syms[1:] if seg else syms
    off = 1 if seg else 0

    def replay(model, ob):
        vals = [model_value(model, t) for t in (syms if z3.is_fp(list(model_terms)[0]) else rsyms)]
        vals = [0.0 if v is None else float(v) for v in vals]
        cvals = vals[1:] if seg else vals

        def chk(rep):
            o = rep[0]
            if isinstance(o, str):
                return [o]
            if len(o) != k + 2 + off:
                return ["indef %s returned %d numbers" % (ty, len(o))]
            msgs = []
            if seg and o[0] != vals[0]:
                msgs.append("end changed %r -> %r" % (vals[0], o[0]))
            co = o[off:]
            if co[0] != 0.0:
                msgs.append("constant term of indefinite(%r) is %r, not 0" % (cvals, co[0]))
            for i in range(k + 1):
                want = Fraction(cvals[i]) / (i + 1)
                tol = (Fraction(2, 2 ** 53) + Fraction(1, 2 ** 106)) * abs(want)
                if co[i + 1] != co[i + 1] or abs(Fraction(co[i + 1]) - want) > tol:
                    msgs.append("indef %s %r: coefficient %d is %r, c_%d/%d = %s" % (ty, cvals, i + 1, co[i + 1], i, i + 1, show(want)))
            return msgs
        return replay_generic(e, ob, [["indef", ty, vals]], chk,
                              "indefinite() = [0, c0, c1/2, ..., c_k/(k+1)] each within (2u+u^2) relative" + (", end unchanged" if seg else ""))

    model_terms = syms
    if len(nums) != k + 2 + off:
        goal = z3.BoolVal(False)
    else:
        goal = z3.And(z3.fpEQ(nums[off].t, z3.FPVal(0.0, F64)), z3.fpEQ(nums[off + 1].t, cs[0]),
                      *([z3.fpEQ(nums[0].t, syms[0])] if seg else []))
    e.prove("%s:indefinite-constant-and-c0" % label,
            "%s::indefinite(), all finite binary64 coefficients: the constant term equals 0 and coefficient 1 equals c_0%s"
            % (label, "; the segment's end is unchanged" if seg else ""),
            [finite(s_) for s_ in syms], goal, dom_name="fp", functions=funcs,
            witness_terms={nm: s_ for nm, s_ in zip(names[:3], syms[:3])},
            role="indefinite-coefficients", replay=replay, prefer=nice_fp(syms))
    pr, numsr, _ = resr[0]
    rsyms = [z3.Real(nm) for nm in names]
    rcs = rsyms[1:] if seg else rsyms
    dbounds = [z3.And(d >= -domr.u, d <= domr.u) for d in pr.deltas]
    tol = 2 * domr.u + domr.u * domr.u
    goals = []
    if len(numsr) != k + 2 + off:
        goals = [z3.BoolVal(False)]
    else:
        for i in range(k + 1):
            out = numsr[off + i + 1].t
            goals.append(z3.And(out * (i + 1) - rcs[i] <= tol * zabs(rcs[i]), rcs[i] - out * (i + 1) <= tol * zabs(rcs[i])))
    model_terms = rsyms

    def replay_r(model, ob):
        vals = [model_value(model, t) for t in rsyms]
        vals = [0.0 if v is None else float(v) for v in vals]
        nonlocal_vals = vals

        def chk(rep):
            o = rep[0]
            if isinstance(o, str):
                return [o]
            cvals = vals[1:] if seg else vals
            co = o[off:]
            msgs = []
            for i in range(k + 1):
                want = Fraction(cvals[i]) / (i + 1)
                tolc = (Fraction(2, 2 ** 53) + Fraction(1, 2 ** 106)) * abs(want)
                if len(co) <= i + 1 or co[i + 1] != co[i + 1] or abs(Fraction(co[i + 1]) - want) > tolc:
                    msgs.append("indef %s %r: coefficient %d is %r, c_%d/%d = %s" % (ty, cvals, i + 1, co[i + 1] if len(co) > i + 1 else None, i, i + 1, show(want)))
            return msgs
        return replay_generic(e, ob, [["indef", ty, vals]], chk, "indefinite() coefficient i+1 within (2u+u^2) relative of c_i/(i+1)")

    e.prove("%s:indefinite-coefficients" % label,
            "%s::indefinite(), rounding model, all real coefficients: coefficient i+1 is within (2u+u^2)|c_i/(i+1)| of c_i/(i+1) "
            "for every i<=%d" % (label, k),
            dbounds + list(pr.side), z3.And(*goals), dom_name="real-delta", functions=funcs,
            witness_terms={nm: s_ for nm, s_ in zip(names[:3], rsyms[:3])}, role="indefinite-coefficients", replay=replay_r)


def check_integral_real(e, k, seg=False):
    ty = ("SP%d" if seg else "P%d") % k
    label = ("Segment<Poly%d>" if seg else "Poly%d") % k
    nin = api.type_len(ty)
    names = ["n%d" % i for i in range(nin)] + ["kx", "ky"]
    funcs = ["<Poly%d as HasIntegral>::integral" % k, "<Poly%d as HasIntegral>::indefinite" % k,
             "<Poly%d as Evaluate>::evaluate" % (k + 1), "<Poly%d as Translate>::translate" % (k + 1)]
    if seg:
        funcs.append("<Segment<T> as HasIntegral>::integral")
    rs = [z3.Real(nm) for nm in names]
    cs = rs[1:nin] if seg else rs[:nin]
    kx, ky = rs[-2], rs[-1]
    wt = {nm: r for nm, r in zip(names, rs)}

    def replay(model, ob):
        vals = [float(model_value(model, t) or 0) for t in rs]
        cv = vals[1:nin] if seg else vals[:nin]
        x, y = vals[-2], vals[-1]

        def chk(rep):
            o = rep[0]
            if isinstance(o, str):
                return [o]
            F = o[1:] if seg else o
            if any(v != v for v in F):
                return ["integral returned NaN: %r" % (o,)]
            Fx = sum((Fraction(c) * Fraction(x) ** i for i, c in enumerate(F)), Fraction(0))
            mag = abs(Fraction(y)) + sum((abs(Fraction(c)) / (i + 1) * abs(Fraction(x)) ** (i + 1) for i, c in enumerate(cv)), Fraction(0))
            bound = 4 * (k + 3) * Fraction(1, 2 ** 53) * mag
            msgs = []
            if abs(Fx - Fraction(y)) > bound:
                msgs.append("integ %s c=%r knot=(%r,%r): F(knot.x)=%s, knot.y=%r, bound %.3g" % (ty, cv, x, y, show(Fx), y, float(bound)))
            # antiderivative: coefficients i>=1 must be c_{i-1}/i within (2u+u^2) relative (one unit in the last place)
            for i in range(1, len(F)):
                want = Fraction(cv[i - 1]) / i
                if abs(Fraction(F[i]) - want) > (Fraction(2, 2 ** 53) + Fraction(1, 2 ** 106)) * abs(want):
                    msgs.append("integ %s c=%r: coefficient %d is %r, expected c%d/%d=%s" % (ty, cv, i, F[i], i - 1, i, show(want)))
                    break
            if seg and not validate.same_bits(o[0], vals[0]):
                msgs.append("segment end changed: %r -> %r" % (vals[0], o[0]))
            return msgs
        return replay_generic(e, ob, [["integ", ty, vals]], chk,
                              "integral(knot): F(knot.x)=knot.y within 4(n+3)u(|y|+sum|c_i/(i+1)||x|^(i+1)); F'=p coefficient-wise")

    # exact arithmetic
    try:
        dom = RealDomain(False)
        res = api.run(e, dom, "integ", ty, lambda d: [d.sym(nm) for nm in names])
        p, nums, _ = res[0]
    except (Unsupported, PathLimit) as ex:
        e.not_encoded("%s:integral-through-knot" % label, "F(knot.x) == knot.y", ex, funcs)
        return
    F = [nm.t for nm in (nums[1:] if seg else nums)]
    if len(F) != k + 2:
        e.not_encoded("%s:integral-through-knot" % label, "F(knot.x) == knot.y",
                      "unexpected result shape (%d numbers)" % len(F), funcs)
        return
    a, b = z3.Real("a"), z3.Real("b")
    pa, pb, px = powers(a, k + 1), powers(b, k + 1), powers(kx, k + 1)
    Fx = sum((F[i] * px[i] for i in range(k + 2)), z3.RealVal(0))
    e.prove("%s:integral-through-knot" % label,
            "%s::integral(knot), exact arithmetic, all real c and knots: the returned polynomial takes the value knot.y at knot.x" % label,
            p.side, Fx == ky, dom_name="real", functions=funcs, witness_terms=wt, role="integral-knot", replay=replay)
    Fa = sum((F[i] * pa[i] for i in range(k + 2)), z3.RealVal(0))
    Fb = sum((F[i] * pb[i] for i in range(k + 2)), z3.RealVal(0))
    exact_int = sum((cs[i] * (pb[i + 1] - pa[i + 1]) / (i + 1) for i in range(k + 1)), z3.RealVal(0))
    wt2 = dict(wt)
    wt2.update({"a": a, "b": b})
    e.prove("%s:definite-integral" % label,
            "%s::integral(knot), exact arithmetic: F(b)-F(a) == sum_i c_i (b^(i+1)-a^(i+1))/(i+1) for all real a,b (so F'=p)" % label,
            p.side, Fb - Fa == exact_int, dom_name="real", functions=funcs, witness_terms=wt2, role="integral-antiderivative",
            replay=replay)
    if seg:
        e.prove("%s:end-unchanged" % label, "Segment::integral keeps `end`", p.side, nums[0].t == rs[0], dom_name="real",
                functions=funcs, witness_terms=wt, role="integral-segment-end", replay=replay)
        return
    # rounding model: residual at the knot, per monomial in (ky, c)
    dom = RealDomain(True)
    res = api.run(e, dom, "integ", ty, lambda d: [d.sym(nm) for nm in names])
    p, nums, _ = res[0]
    F = [nm.t for nm in nums]
    Res = sum((F[i] * px[i] for i in range(k + 2)), z3.RealVal(0)) - ky
    deltas = list(p.deltas)
    dbounds = [z3.And(d >= -dom.u, d <= dom.u) for d in deltas]
    data = [ky] + list(cs)
    lanes = []
    for i, v in enumerate(data):
        lanes.append(z3.substitute(Res, *[(w, z3.RealVal(0)) for j, w in enumerate(data) if j != i]))
    e.prove("%s:knot-residual-linearity" % label,
            "rounding model: the residual F_d(knot.x)-knot.y is the sum of its (ky, c_0..c_%d) lanes" % k,
            [], Res == sum(lanes, z3.RealVal(0)), dom_name="real-delta", functions=funcs, witness_terms=wt,
            role="integral-knot-linearity")
    K = 4 * (k + 3)
    for i, v in enumerate(data):
        G = z3.simplify(z3.substitute(lanes[i], (v, z3.RealVal(1)), (kx, z3.RealVal(1))))
        if i == 0:
            shape = lanes[i] == ky * G
            scale = 1
            what = "ky"
        else:
            shape = lanes[i] == cs[i - 1] * px[i] * G
            scale = i
            what = "c%d" % (i - 1)
        e.prove("%s:knot-residual-lane-%s-shape" % (label, what), "lane of %s: residual == %s * x^%d * G(d)" % (what, what, i),
                [], shape, dom_name="real-delta", functions=funcs, witness_terms=wt, role="integral-knot-lane-shape")
        e.prove("%s:knot-residual-lane-%s-bound" % (label, what),
                "for all |d|<=2^-53: |G(d)| * %d <= %d*2^-53, i.e. |F(knot.x)-knot.y| <= 4(n+3)u(|ky| + sum|c_i/(i+1)||x|^(i+1))"
                % (scale, K),
                dbounds, z3.And(G * scale <= K * dom.u, -G * scale <= K * dom.u), dom_name="real-delta", functions=funcs,
                witness_terms={str(d): d for d in deltas[:3]}, role="integral-knot-rounding")
    e.expect_sat("%s:knot-residual-tightness" % label, "tightness twin: the ky lane's residual can exceed u/2 in magnitude",
                 dbounds + [z3.Or(z3.simplify(z3.substitute(lanes[0], (ky, z3.RealVal(1)))) > dom.u / 2,
                                  z3.simplify(z3.substitute(lanes[0], (ky, z3.RealVal(1)))) < -dom.u / 2)],
                 dom_name="real-delta", functions=funcs)


def check_deriv_of_indef(e, k, tier):
    """derivative(indefinite(p))[i] vs c_i"""
    label = "Poly%d" % k
    names = ["c%d" % i for i in range(k + 1)]
    funcs = ["<Poly%d as HasIntegral>::indefinite" % k, "<Poly%d as HasDerivative>::derivative" % (k + 1)]
    try:
        dom = RealDomain(True)
        r1 = api.run(e, dom, "indef", "P%d" % k, lambda d: [d.sym(nm) for nm in names])
        ind = r1[0][1]
        deltas = list(r1[0][0].deltas)
        # keep the rounding variables of the first run: continue in the same domain without reset
        from interp import Interp
        it = Interp(e.program, dom)
        fn, args, post = api.build_call(e.program, "deriv", "P%d" % (k + 1), ind)
        it.path = None
        import interp as _i
        it.path = _i.Path()
        it.prescribed, it.pending, it.steps = [], [], 0
        res = it.call_function(fn, args)
        out = api.flat(res)
        deltas = list(dom.deltas)
    except (Unsupported, PathLimit) as ex:
        e.not_encoded("%s:derivative-of-indefinite" % label, "d/dx indefinite(p) == p", ex, funcs)
        return
    cs = [z3.Real(nm) for nm in names]
    dbounds = [z3.And(d >= -dom.u, d <= dom.u) for d in deltas]
    goals = []
    for i in range(k + 1):
        # |out_i - c_i| <= (2u+u^2)|c_i|  <=>  posed at c_i = 1 (out_i is c_i times a factor)
        fac = z3.simplify(z3.substitute(out[i].t, (cs[i], z3.RealVal(1))))
        goals.append(out[i].t == cs[i] * fac)
        goals.append(z3.And(fac - 1 <= 2 * dom.u + dom.u * dom.u, 1 - fac <= 2 * dom.u + dom.u * dom.u))
    e.prove("%s:derivative-of-indefinite" % label,
            "rounding model: derivative(indefinite(p))[i] == c_i*(1+d1)(1+d2), within (2u+u^2)|c_i| of c_i, for every i<=%d" % k,
            dbounds, z3.And(*goals), dom_name="real-delta", functions=funcs,
            witness_terms={nm: c for nm, c in zip(names[:2], cs[:2])}, role="derivative-of-indefinite")


def run(rep, tier):
    e = E2(rep, tier)
    rep.explanation = ("indefinite()/integral() of Poly0..7 (and through Segment<T>) executed symbolically from MIR; z3 proves "
                       "bit-exact coefficient formulas (QF_FP), exact-arithmetic antiderivative/knot identities and the "
                       "per-monomial rounding bound of the knot residual.")
    rep.bounds = {"degrees": "0..7 (all impls)", "inputs": "all reals / all binary64; REAL-delta proviso for rounding bounds"}
    specs = [("indef", "P%d" % k, k + 1, ()) for k in range(8)] + [("integ", "P%d" % k, k + 3, ()) for k in range(8)]
    specs += [("indef", "SP2", 4, ()), ("integ", "SP2", 6, ())]
    if validate.validate(e, specs, seed=rep.seed, n_rand=4):
        for k in range(8):
            check_indefinite_fp(e, k)
            check_integral_real(e, k)
            check_deriv_of_indef(e, k, tier)
        segk = range(8) if tier == "thorough" else (0, 3, 7)
        for k in segk:
            check_indefinite_fp(e, k, seg=True)
            check_integral_real(e, k, seg=True)
    e.finish()


def replay(path):
    import json
    from engine import Native
    d = json.load(open(path))
    nat = Native()
    for (op, ty, vals) in d["requests"]:
        for prof in ("dev", "release"):
            print("%s %s %r -> %r [%s]; statement: %s" % (op, ty, vals, nat.run([(op, ty, vals)], prof)[0], prof, d["statement"]))
    return 1
