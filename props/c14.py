"""C14 — scaling, negation, addition, subtraction and translation act pointwise (engine E2, bit-precise FP)."""
import os
import re
import sys
from fractions import Fraction

import z3

sys.path.insert(0, os.path.join(os.path.dirname(os.path.dirname(os.path.abspath(__file__))), "e2"))
import api
import validate
from domains import FPDomain, RealDomain, f2bits
from engine import E2, model_value, show, canon_fp
from interp import Unsupported, PathLimit, Interp

LEVEL = "proof"
F64 = z3.Float64()
RNE = z3.RNE()


class ZOps:
    mul = staticmethod(lambda a, b: z3.fpMul(RNE, a, b))
    add = staticmethod(lambda a, b: z3.fpAdd(RNE, a, b))
    sub = staticmethod(lambda a, b: z3.fpSub(RNE, a, b))
    neg = staticmethod(lambda a: z3.fpNeg(a))


class POps:
    mul = staticmethod(lambda a, b: a * b)
    add = staticmethod(lambda a, b: a + b)
    sub = staticmethod(lambda a, b: a - b)
    neg = staticmethod(lambda a: -a)


def const_index(ty):
    """index (in the flattened numbers) of the additive constant that translate() must change"""
    if ty.startswith("IL"):
        return 0  # k
    return 0  # c0 for P*, LP*, PN*


def expected(ops, op, ty, a, b, s):
    """a, b: flattened operand numbers; s: scalar.  Returns expected flattened result."""
    if op in ("mul", "mulassign"):
        return [ops.mul(x, s) for x in a]
    if op == "neg":
        return [ops.neg(x) for x in a]
    if op in ("add", "addref"):
        return [ops.add(x, y) for x, y in zip(a, b)]
    if op in ("sub", "subref"):
        return [ops.sub(x, y) for x, y in zip(a, b)]
    if op == "translate":
        if ty == "PN0":
            return [s]
        out = list(a)
        out[const_index(ty)] = ops.add(a[const_index(ty)], s)
        return out
    raise ValueError(op)


def candidates():
    polys = ["P%d" % k for k in range(9)]
    logs = ["LP%d" % k for k in range(9)]
    ils = ["IL%d" % k for k in range(9)]
    out = []
    for t in polys:
        out += [("mul", t), ("mulassign", t), ("neg", t), ("add", t), ("translate", t)]
    for t in logs:
        out += [("mul", t), ("mulassign", t), ("translate", t)]
    for t in ils:
        out += [("mul", t), ("mulassign", t), ("neg", t), ("add", t), ("translate", t)]
    t = "ILP4"
    out += [("mul", t), ("neg", t), ("add", t), ("addref", t), ("sub", t), ("subref", t), ("translate", t)]
    out += [("translate", "PN%d" % n) for n in range(5)]
    return out


def arity(op, ty):
    n = api.type_len(ty)
    if op in ("add", "sub", "addref", "subref"):
        return 2 * n, n
    if op == "neg":
        return n, n
    return n + 1, n


def native_available(op, ty):
    return True


def check_op(e, op, ty):
    tot, n = arity(op, ty)
    label = "%s:%s" % (op, ty)
    names = ["a%d" % i for i in range(n)]
    if op in ("add", "sub", "addref", "subref"):
        names += ["b%d" % i for i in range(n)]
    elif op != "neg":
        names += ["s"]
    dom = FPDomain()
    try:
        res = api.run(e, dom, op, ty, lambda d: [d.sym(nm) for nm in names])
    except Unsupported as ex:
        if "no impl of" in str(ex) or "no crate impl" in str(ex):
            return None  # this operator does not exist for this form
        e.not_encoded(label, "operator result is number-by-number correctly rounded", ex)
        return False
    except PathLimit as ex:
        e.not_encoded(label, "operator result is number-by-number correctly rounded", ex)
        return False
    if len(res) != 1 or res[0][0].panic is not None:
        e.not_encoded(label, "operator", "expected a single non-panicking path")
        return False
    p, nums, val = res[0]
    syms = [z3.FP(nm, F64) for nm in names]
    a = syms[:n]
    b = syms[n:2 * n] if len(syms) >= 2 * n and op in ("add", "sub", "addref", "subref") else None
    s = syms[-1] if op in ("mul", "mulassign", "translate") else None
    want = expected(ZOps, op, ty, a, b, s)
    funcs = sorted(x for x in p.calls if "::" in x)[:6]
    # value-level comparison (fp.eq: +0 == -0; NaN payloads irrelevant), finite inputs as the property states
    if len(want) != len(nums):
        goal = z3.BoolVal(False)
    else:
        cache = {}
        pairs = [(canon_fp(g.t, cache), canon_fp(w, cache)) for g, w in zip(nums, want)]
        goal = z3.And(*[z3.Or(z3.fpEQ(g, w), z3.And(z3.fpIsNaN(g), z3.fpIsNaN(w))) for g, w in pairs])
    fin = [z3.And(z3.Not(z3.fpIsNaN(t)), z3.Not(z3.fpIsInf(t))) for t in syms]

    def replay(model, ob):
        vals = [model_value(model, t) for t in syms]
        vals = [0.0 if v is None else float(v) for v in vals]
        return replay_op(e, op, ty, vals, ob)

    desc = {"mul": "every number of f*s is the correctly rounded product c*s", "mulassign": "`*=` gives term for term the result of `*`: every number is fp.mul(c,s)",
            "neg": "every number of -f is -c (sign flip, exact)", "add": "every number of f+g is the correctly rounded c1+c2",
            "addref": "&f + &g: every number is the correctly rounded c1+c2", "sub": "every number of f-g is the correctly rounded c1-c2",
            "subref": "&f - &g: every number is the correctly rounded c1-c2",
            "translate": "translate(v) adds v (correctly rounded) to the additive constant and changes nothing else"}[op]
    if s is not None and op in ("mul", "mulassign"):
        # the special scalars the property names (0, -1, and 1): same claim with the scalar fixed -- cheap even when a
        # value-dependent fast path makes the fully symbolic query hard for the bit-blaster
        for sv in (0.0, 1.0, -1.0):
            cst = z3.FPVal(sv, F64)
            g2 = z3.substitute(goal, (s, cst))
            e.prove("%s[s=%r]" % (label, sv), "%s on %s with the scalar fixed to %r, all finite coefficients: every number is the correctly "
                    "rounded product" % (op, ty, sv), fin[:-1], g2, dom_name="fp", functions=funcs,
                    witness_terms={nm: t for nm, t in list(zip(names, syms))[:3]}, role="operator:%s" % op,
                    replay=(lambda model, ob, sv=sv: replay_op(e, op, ty, [0.0 if model_value(model, t) is None else float(model_value(model, t))
                                                                          for t in syms[:-1]] + [sv], ob)))
    e.prove(label, "%s on %s, for ALL finite binary64 inputs (bit-precise, results compared with fp.eq): %s" % (op, ty, desc),
            fin, goal, dom_name="fp", functions=funcs,
            witness_terms={nm: t for nm, t in list(zip(names, syms))[:4]}, role="operator:%s" % op, replay=replay)
    return True


def replay_op(e, op, ty, vals, ob):
    tot, n = arity(op, ty)
    a = vals[:n]
    b = vals[n:2 * n] if op in ("add", "sub", "addref", "subref") else None
    s = vals[-1] if op in ("mul", "mulassign", "translate") else None
    want = expected(POps, op, ty, a, b, s)
    path = e.write_replay(ob.name, {"kind": "E2-native-op", "requests": [[op, ty, vals]], "expected": want,
                                    "statement": "operator result equals the number-by-number correctly rounded result"})
    bad = []
    for prof in ("dev", "release"):
        o = e.native.run([(op, ty, vals)], prof)[0]
        if isinstance(o, str):
            if o.startswith("ERR"):
                return False, path, "native oracle has no entry for %s %s (%s)" % (op, ty, o)
            bad.append("%s: %s" % (prof, o))
        elif len(o) != len(want) or not all((x == y) or (x != x and y != y) for x, y in zip(o, want)):
            bad.append("%s build: %s %s %r -> %r, expected %r" % (prof, op, ty, vals, o, want))
    if bad:
        return True, path, "; ".join(bad)
    return False, path, "model does not reproduce natively"


def check_value_linear(e, op, ty):
    """exact-arithmetic: evaluate(op(f..))(x) == op applied to evaluate(f)(x)  (pointwise value statement)."""
    if ty.startswith("PN"):
        return
    tot, n = arity(op, ty)
    label = "%s:%s:pointwise-value" % (op, ty)
    names = ["a%d" % i for i in range(n)]
    two = op in ("add", "sub", "addref", "subref")
    if two:
        names += ["b%d" % i for i in range(n)]
    elif op != "neg":
        names += ["s"]
    try:
        dom = RealDomain(False)
        it = Interp(e.program, dom)
        res = api.run(e, dom, op, ty, lambda d: [d.sym(nm) for nm in names])
        p, nums, val = res[0]
        out_nums = nums
        x = dom.sym("x")

        def ev(nums_):
            # per-path (IntOfLogPoly4::evaluate legitimately forks on the series/closed-form thresholds)
            r = api.run(e, dom, "eval", ty, lambda d, nums_=nums_: list(nums_) + [d.sym("x")], merge=False)
            return [(pp, nn[0].t) for (pp, nn, _) in r if pp.panic is None]
        syms = [dom.sym(nm) for nm in names]
        fa = ev(syms[:n])
        fb = ev(syms[n:2 * n]) if two else [(None, None)]
        fr = ev(out_nums)
    except (Unsupported, PathLimit) as ex:
        e.not_encoded(label, "value of the result is the pointwise combination", ex)
        return
    s = z3.Real("s")
    goals = []
    assumptions = []
    for (pa, ta) in fa:
        for (pb, tb) in fb:
            for (pr, tr) in fr:
                conds = list(pa.conds) + (list(pb.conds) if pb is not None else []) + list(pr.conds)
                side = list(pa.side) + (list(pb.side) if pb is not None else []) + list(pr.side)
                if op in ("mul", "mulassign"):
                    want = s * ta
                elif op == "neg":
                    want = -ta
                elif op in ("add", "addref"):
                    want = ta + tb
                elif op in ("sub", "subref"):
                    want = ta - tb
                else:
                    want = ta + s
                goals.append(z3.Implies(z3.And(*(conds + side)) if conds + side else z3.BoolVal(True), tr == want))
    xs = z3.Real("x")
    e.prove(label, "exact arithmetic, all real inputs and x: evaluate(%s(f..), x) equals the pointwise %s of evaluate(f, x) "
            "(ln/exp uninterpreted but shared)" % (op, op), assumptions, z3.And(*goals), dom_name="real",
            functions=["<%s as Evaluate>::evaluate" % ty], witness_terms={"x": xs}, role="operator-value:%s" % op)


def run(rep, tier):
    e = E2(rep, tier)
    rep.explanation = ("Every operator impl found for every function form is executed symbolically from the MIR in bit-precise "
                       "binary64; z3 proves each output number equals the correctly rounded scalar operation on the matching "
                       "input number(s), for all 2^64 values of every input. Pointwise value statements follow from "
                       "exact-arithmetic linearity queries.")
    rep.bounds = {"inputs": "all finite binary64 values (incl. +-0, subnormals, extremes) for every number", "PolyN_translate_lengths": "0..4"}
    cands = candidates()
    specs = []
    for (op, ty) in [("mul", "P3"), ("mulassign", "P8"), ("neg", "P2"), ("add", "P5"), ("translate", "P4"),
                     ("mul", "LP4"), ("mulassign", "LP1"), ("translate", "LP8"), ("mul", "IL3"), ("mulassign", "IL8"),
                     ("neg", "IL1"), ("add", "IL3"), ("translate", "IL1"), ("mul", "ILP4"), ("neg", "ILP4"), ("add", "ILP4"),
                     ("sub", "ILP4"), ("addref", "ILP4"), ("subref", "ILP4"), ("translate", "ILP4"), ("translate", "PN0"),
                     ("translate", "PN3")]:
        specs.append((op, ty, arity(op, ty)[0], ()))
    ok = validate.validate(e, specs, seed=rep.seed, n_rand=4)
    found = 0
    if ok:
        for (op, ty) in cands:
            r = check_op(e, op, ty)
            if r:
                found += 1
                if op in ("mul", "neg", "add", "sub", "translate") and (tier == "thorough" or ty in ("P2", "P8", "LP3", "IL2", "IL8", "ILP4")):
                    check_value_linear(e, op, ty)
        # coverage of the impl list derived from the MIR dump
        wanted = [f for f in e.program.funcs
                  if re.search(r"::(mul|mul_assign|neg|add|sub|translate)$", f.name)
                  and f.src_span and f.src_span[0] in ("src/poly.rs", "src/log_poly.rs")]
        missed = [f.name for f in wanted if f.name not in rep.functions]
        rep.self_tests["operator_impls_in_mir"] = len(wanted)
        rep.self_tests["operator_impls_executed"] = len(wanted) - len(missed)
        for nm in missed:
            e.not_encoded("impl-coverage:" + nm, "operator impl present in the MIR dump is exercised by some obligation",
                          "no candidate (op, form) reached this impl")
    rep.self_tests["operator_instances_checked"] = found
    e.finish()


def replay(path):
    import json
    from engine import Native
    d = json.load(open(path))
    nat = Native()
    bad = 0
    for (op, ty, vals) in d["requests"]:
        for prof in ("dev", "release"):
            o = nat.run([(op, ty, vals)], prof)[0]
            print("%s %s %r -> %r [%s]; expected %r" % (op, ty, vals, o, prof, d.get("expected")))
            if isinstance(o, str) or not all((x == y) or (x != x and y != y) for x, y in zip(o, d["expected"])):
                bad = 1
    return bad
