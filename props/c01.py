"""C01 — polynomial and log-polynomial evaluation equals the mathematical value (engine E2 + E1 anchor)."""
import z3

import sys, os
sys.path.insert(0, os.path.join(os.path.dirname(os.path.dirname(os.path.abspath(__file__))), "e2"))
import api
import validate
from domains import FPDomain, RealDomain
from engine import E2, model_value, show
from interp import Unsupported, PathLimit
from fractions import Fraction

LEVEL = "proof"


def powers(x, n):
    pw = [z3.RealVal(1)]
    for _ in range(n):
        pw.append(pw[-1] * x)
    return pw


def check_poly(e, ty, ncoef, label, funcs, lanes_up_to=None):
    """Obligations for one polynomial form with ncoef coefficients (degree ncoef-1).
    lanes_up_to: only the rounding lanes below this index are bounded (long PolyN: the high lanes' products of ~2n rounding factors
    do not finish within the cap; the exact identity and linearity are still decided)."""
    n = ncoef - 1
    names = ["c%d" % i for i in range(ncoef)]
    cs = [z3.Real(nm) for nm in names]
    x = z3.Real("x")
    pw = powers(x, max(n, 0))
    math_val = sum((cs[i] * pw[i] for i in range(ncoef)), z3.RealVal(0))
    wt = {nm: c for nm, c in zip(names, cs)}
    wt["x"] = x

    def replay(model, ob):
        import math
        cv = [float(model_value(model, c) or 0) for c in cs]
        xf = float(model_value(model, x) or 0)
        # the real model is rounded to binary64; a model that sits just beyond a threshold of the code (|x| > 1e38 as a real)
        # can round onto the threshold itself, so the float neighbours away from zero and a slightly larger magnitude are tried too
        cands = [xf, math.nextafter(xf, math.copysign(math.inf, xf)), xf * (1.0 + 2.0 ** -20), xf * 1.25]
        last = None
        for xc in cands:
            last = replay_eval(e, ty, cv + [xc], ob)
            if last[0]:
                return last
        return last

    # counterexamples are preferred inside the property's proviso (no partial term overflows or underflows in binary64): the real
    # encoding has no overflow, so an unconstrained model of a deviation that only exists for |x| > 1e38 may sit at 1e100, where the
    # native run only shows inf/NaN.  |c_i| in {0} u [2^-20, 1], 2^-(1000/n) <= |x| <= 2^(1020/n) keeps every |c_i x^i| in range.
    ax = z3.If(x >= 0, x, -x)
    hi = 2 ** (1020 // max(n, 1))
    lo = z3.Q(1, 2 ** (1000 // max(n, 1)))
    in_range = [ax <= hi, ax >= lo] + [z3.And(c <= 1, c >= -1, z3.Or(c == 0, c >= z3.Q(1, 2 ** 20), c <= -z3.Q(1, 2 ** 20))) for c in cs]

    # (a) exact-arithmetic meaning of the code = sum c_i x^i
    try:
        dom = RealDomain(False)
        res = api.run(e, dom, "eval", ty, lambda d: [d.sym(nm) for nm in names] + [d.sym("x")])
    except (Unsupported, PathLimit) as ex:
        e.not_encoded("%s:exact-identity" % label, "code(c,x) == sum c_i x^i", ex, funcs)
        return
    if len(res) != 1 or res[0][0].panic is not None:
        e.not_encoded("%s:exact-identity" % label, "code(c,x) == sum c_i x^i",
                      "expected one non-panicking path, got %d" % len(res), funcs)
        return
    p, nums, _ = res[0]
    e.prove("%s:exact-identity" % label,
            "%s::evaluate, all real c[0..%d], x: the exact-arithmetic value of the code's operation tree equals sum_i c_i*x^i "
            "(hence the result is exact whenever every partial term is representable)" % (label, n),
            p.side, nums[0].t == math_val, dom_name="real", functions=funcs, witness_terms=wt,
            role="eval-value:" + label, replay=replay, prefer=in_range)
    if ncoef == 0:
        return
    # (b) rounding: per-monomial factor bound, with the same rounding variables in every lane
    dom = RealDomain(True)
    res = api.run(e, dom, "eval", ty, lambda d: [d.sym(nm) for nm in names] + [d.sym("x")])
    p, nums, _ = res[0]
    R = nums[0].t
    deltas = list(p.deltas)
    dbounds = [z3.And(d >= -dom.u, d <= dom.u) for d in deltas]
    lanes = []
    for i in range(ncoef):
        Ri = z3.substitute(R, *[(cs[j], z3.RealVal(0)) for j in range(ncoef) if j != i])
        lanes.append(Ri)
    e.prove("%s:linearity" % label,
            "%s::evaluate with rounding variables d: P_d(c,x) == sum_i P_d(c_i e_i, x) (same d in every lane), so the "
            "error bound may be posed per monomial" % label,
            [], R == sum(lanes, z3.RealVal(0)), dom_name="real-delta", functions=funcs,
            witness_terms=wt, role="eval-linearity:" + label)
    K = 4 * (n + 2)
    for i in range(ncoef if lanes_up_to is None else min(ncoef, lanes_up_to)):
        Fi = z3.simplify(z3.substitute(lanes[i], (cs[i], z3.RealVal(1)), (x, z3.RealVal(1))))
        e.prove("%s:lane%d-shape" % (label, i),
                "lane %d of %s: P_d(c_%d e_%d, x) == c_%d * x^%d * F_%d(d)" % (i, label, i, i, i, i, i),
                [], lanes[i] == cs[i] * pw[i] * Fi, dom_name="real-delta", functions=funcs,
                witness_terms={"c%d" % i: cs[i], "x": x}, role="eval-lane-shape:" + label, replay=replay, prefer=in_range)
        nd = len(set(str(d) for d in z3.z3util.get_vars(Fi)))
        e.prove("%s:lane%d-bound" % (label, i),
                "for all rounding variables |d|<=2^-53: |F_%d(d) - 1| <= %d*2^-53 = 4(n+2)u (the x^%d lane of %s; "
                "%d rounding variables occur)" % (i, K, i, label, nd),
                dbounds, z3.And(Fi - 1 <= K * dom.u, 1 - Fi <= K * dom.u), dom_name="real-delta", functions=funcs,
                witness_terms={str(d): d for d in deltas[:3]}, role="eval-rounding:" + label,
                extra_bounds={"K": K, "rounding_vars_in_lane": nd})
        if nd >= 1:
            kt = Fraction(2 * nd - 1, 2)
            e.expect_sat("%s:lane%d-tightness" % (label, i),
                         "tightness twin: some |d|<=u gives |F_%d - 1| > %s*u (the box is not vacuous)" % (i, kt),
                         dbounds + [z3.Or(Fi - 1 > z3.Q(kt.numerator, kt.denominator) * dom.u,
                                          1 - Fi > z3.Q(kt.numerator, kt.denominator) * dom.u)],
                         dom_name="real-delta", functions=funcs, witness_terms={str(d): d for d in deltas[:3]})


def replay_eval(e, ty, vals, ob):
    """Native replay: run the real evaluate on the model's inputs and compare with the exact value."""
    out = e.native.run([("eval", ty, vals)], "dev")[0]
    out_r = e.native.run([("eval", ty, vals)], "release")[0]
    cs, x = vals[:-1], vals[-1]
    exact = sum((Fraction(c) * Fraction(x) ** i for i, c in enumerate(cs)), Fraction(0))
    mag = sum((abs(Fraction(c)) * abs(Fraction(x)) ** i for i, c in enumerate(cs)), Fraction(0))
    n = max(len(cs) - 1, 0)
    bound = 4 * (n + 2) * Fraction(1, 2 ** 53) * mag
    bad = []
    for prof, o in (("dev", out), ("release", out_r)):
        if isinstance(o, str):
            bad.append("%s: %s" % (prof, o))
        elif o[0] in (float("inf"), float("-inf")):
            # an infinite result where every partial term is finite and far from the overflow threshold
            if mag < Fraction(2) ** 1000:
                bad.append("%s build returns %r, exact value %s (all partial terms below 2^1000)" % (prof, o[0], show(exact)))
        elif o[0] != o[0] or abs(Fraction(o[0]) - exact) > bound:
            bad.append("%s build returns %r, exact value %s, bound %.3g" % (prof, o[0], show(exact), float(bound)))
    path = e.write_replay(ob.name, {"kind": "E2-native", "requests": [["eval", ty, vals]],
                                    "statement": "|evaluate(c,x) - sum c_i x^i| <= 4(n+2) 2^-53 sum |c_i||x|^i",
                                    "exact": str(exact), "bound": str(bound)})
    if bad:
        return True, path, "%s evaluate(%r): %s" % (ty, vals, "; ".join(bad))
    return False, path, "model %r does not violate the bound natively" % (vals,)


def check_log(e, k):
    """Log<T>::evaluate(v) == T::evaluate(v.ln()), posed structurally: the inner evaluate is stubbed by an uninterpreted
    result and we prove (i) it is called on the wrapped polynomial itself, (ii) with the argument ln_f64(v), (iii) its
    result is returned unchanged.  (Comparing two bit-blasted polynomial evaluations at different uninterpreted
    arguments does not finish; this does, and a model of (ii) is confirmed natively with the property's tolerance.)"""
    label = "Log<Poly%d>" % k
    funcs = ["<Log<T> as Evaluate>::evaluate", "<Poly%d as Evaluate>::evaluate (stubbed: its own value is decided above)" % k]
    names = ["c%d" % i for i in range(k + 1)]
    F = z3.Float64()
    cs = [z3.FP(nm, F) for nm in names]
    v = z3.FP("v", F)
    calls = []
    try:
        from interp import Interp, Struct, Ref, read_path
        from domains import Num
        dom = FPDomain()
        it = Interp(e.program, dom)
        inner_name = "Poly%d" % k

        def inner_evaluate(f, args):
            if not f.name.endswith("::evaluate") or len(args) != 2 or not isinstance(args[0], Ref):
                return False
            tgt = read_path(args[0].cell, args[0].path)
            return isinstance(tgt, Struct) and tgt.name == inner_name

        def handler(it_, args):
            tgt = read_path(args[0].cell, args[0].path)
            calls.append((api.flat(tgt), args[1]))
            return Num(dom, z3.FP("inner_result", F))
        it.stub_preds.append((inner_evaluate, handler))
        fn, _, _ = api.build_call(e.program, "eval", "LP%d" % k, [dom.sym(nm) for nm in names] + [dom.sym("v")])
        paths = it.explore(fn, lambda d: api.build_call(e.program, "eval", "LP%d" % k, [d.sym(nm) for nm in names] + [d.sym("v")])[1])
        e.rep.functions.update(it.functions_run)
    except (Unsupported, PathLimit) as ex:
        e.not_encoded("%s:composition" % label, "Log<T>::evaluate(v) == T::evaluate(ln v)", ex, funcs)
        return
    if len(paths) != 1 or paths[0].panic is not None or len(calls) != 1:
        e.not_encoded("%s:composition" % label, "Log<T>::evaluate(v) == T::evaluate(ln v)",
                      "expected one path with exactly one call of the inner evaluate (paths=%d, calls=%d)" % (len(paths), len(calls)), funcs)
        return
    inner_cs, arg = calls[0]
    res = paths[0].result

    def replay(model, ob):
        """Native confirmation with the property's own tolerance:
        |result - P(ln v)| <= 4(n+2)u sum|c_i||L|^i + |P'(L)| * ulp(L)   (60-digit reference), at the model's point and at a
        fixed list of stress points (tiny, near 1, huge v)."""
        import mpmath
        mpmath.mp.dps = 60
        mv = [model_value(model, c) for c in cs]
        mc = [1.0 if (x is None or x != x or abs(x) > 1e100) else float(x) for x in mv]
        vm = model_value(model, v)
        vs = [float(vm)] if (vm is not None and vm == vm and 0 < vm < float("inf")) else []
        vs += [3.3e-5, 2.0 ** -60, 1e-300, 1e-3, 0.5, 0.9999999, 1.0000001, 2.0, 7.0, 1e6, 1e300]
        cvecs = [mc, [1.0] * (k + 1), [(-1.0) ** i * (i + 1) for i in range(k + 1)]]
        path = e.write_replay(ob.name, {"kind": "E2-native-log", "degree": k, "coefficients": cvecs, "points": vs,
                                        "statement": "|Log<P>::evaluate(v) - P(ln v)| <= 4(n+2)u sum|c_i||ln v|^i + |P'(ln v)| ulp(ln v)"})
        for cv in cvecs:
            for vv in vs:
                for prof in ("dev", "release"):
                    o = e.native.run([("eval", "LP%d" % k, cv + [vv])], prof)[0]
                    if isinstance(o, str):
                        return True, path, "%s build: Log<Poly%d>(%r).evaluate(%r): %s" % (prof, k, cv, vv, o)
                    L = mpmath.log(mpmath.mpf(vv))
                    exact = sum(mpmath.mpf(c) * L ** i for i, c in enumerate(cv))
                    mag = sum(abs(mpmath.mpf(c)) * abs(L) ** i for i, c in enumerate(cv))
                    dP = sum(i * mpmath.mpf(c) * L ** (i - 1) for i, c in enumerate(cv) if i >= 1)
                    tol = 4 * (k + 2) * mpmath.mpf(2) ** -53 * mag + abs(dP) * abs(L) * mpmath.mpf(2) ** -52 + mpmath.mpf(10) ** -300
                    got = o[0]
                    if got != got or abs(got) == float("inf") or abs(mpmath.mpf(got) - exact) > tol:
                        return True, path, "%s build: Log<Poly%d>(%r).evaluate(%r) = %r, value of the polynomial at ln v is %s, allowed error %s" % (
                            prof, k, cv, vv, got, mpmath.nstr(exact, 20), mpmath.nstr(tol, 5))
        return False, path, "no tested point violates the property's bound natively"

    same = lambda a, b: z3.Or(a == b, z3.And(z3.fpIsNaN(a), z3.fpIsNaN(b)))
    goals = [same(arg.t, dom.ln(Num(dom, v)).t), same(res.t, z3.FP("inner_result", F))]
    if len(inner_cs) != k + 1:
        goals.append(z3.BoolVal(False))
    else:
        goals += [same(a.t, b) for a, b in zip(inner_cs, cs)]
    pre = [z3.Not(z3.fpIsNaN(c)) for c in cs] + [z3.fpGT(v, z3.FPVal(0.0, F)), z3.Not(z3.fpIsInf(v))]
    e.prove("%s:composition" % label,
            "bit-precise, all non-NaN c and finite v>0: Log<Poly%d>::evaluate(v) calls Poly%d::evaluate exactly once, on the wrapped "
            "coefficients, with the argument ln_f64(v) (libm ln as one uninterpreted function), and returns its result unchanged -- so "
            "the polynomial's bound (above) carries over; accuracy of libm ln itself is outside the claim" % (k, k),
            pre, z3.And(*goals), dom_name="fp", functions=funcs, witness_terms={"v": v, "c0": cs[0]}, role="log-composition", replay=replay)


def run(rep, tier):
    e = E2(rep, tier)
    rep.explanation = ("SMT proofs over terms obtained by symbolically executing the MIR of every evaluate impl: exact-arithmetic "
                       "identity with sum c_i x^i; linearity + per-monomial rounding-factor bound 4(n+2)u in the standard model "
                       "of IEEE arithmetic with tightness twins; bit-precise composition claim for Log<T>.")
    lens = list(range(0, 13)) if tier == "thorough" else [0, 1, 2, 3, 5, 8, 12]
    long_lens = [16, 17, 33, 65] if tier == "quick" else [16, 17, 24, 32, 33, 64, 65, 129, 257]
    rep.bounds = {"fixed_degree": "Poly0..Poly8: no input bound (all reals / all binary64)",
                  "PolyN_lengths": lens, "PolyN_lengths_identity_only": long_lens,
                  "outside": "PolyN longer than the listed lengths; rounding lanes of x^4 and above for PolyN longer than 12 (exact identity, "
                             "linearity and the four lowest lanes only); overflow/underflow of partial terms; accuracy of ln"}
    specs = [("eval", "P%d" % k, k + 2, ()) for k in range(9)]
    specs += [("eval", "PN%d" % n, n + 1, ()) for n in (0, 1, 4, 12)]
    specs += [("eval", "LP%d" % k, k + 2, (k + 1,)) for k in range(9)]
    ok = validate.validate(e, specs, seed=rep.seed)
    if ok:
        for k in range(9):
            check_poly(e, "P%d" % k, k + 1, "Poly%d" % k, ["<Poly%d as Evaluate>::evaluate" % k])
        for n in lens:
            check_poly(e, "PN%d" % n, n, "PolyN[len=%d]" % n, ["<PolyN as Evaluate>::evaluate", "PolyN::evaluate::{closure#0}"])
        for n in long_lens:
            check_poly(e, "PN%d" % n, n, "PolyN[len=%d]" % n, ["<PolyN as Evaluate>::evaluate", "PolyN::evaluate::{closure#0}"], lanes_up_to=4)
        for k in range(9):
            check_log(e, k)
    e.finish()
    # E1 anchor: the compiled evaluators (with the real fused multiply-add) on exactly representable small integers
    from e1 import HarnessSpec
    from props.e1util import run_e1
    names = ["poly1", "poly2", "poly3", "polyn4"] if tier == "quick" else ["poly1", "poly2", "poly3", "poly4", "poly5", "polyn4"]
    specs = [HarnessSpec("c01::c01_exact_" + nm,
                         "compiled code incl. fused multiply-add: for all integer coefficients |c|<=4 and integer |x|<=3 the result of %s::evaluate "
                         "equals the integer value of sum c_i x^i exactly%s" % (nm, " (and the empty PolyN evaluates to 0)" if nm == "polyn4" else ""),
                         ["<%s as Evaluate>::evaluate" % nm], {"coefficients": "integers in [-4,4]", "x": "integers in [-3,3]"},
                         timeout_s=600 if tier == "quick" else 1800, mem_gb=14, role="eval-exactness") for nm in names]
    run_e1(rep, specs)


def replay(path):
    if path.endswith(".rs"):
        from props.e1util import replay_cmd
        return replay_cmd(path)
    import json
    from engine import Native
    d = json.load(open(path))
    nat = Native()
    bad = 0
    for (op, ty, vals) in d["requests"]:
        for prof in ("dev", "release"):
            o = nat.run([(op, ty, vals)], prof)[0]
            print("%s %s %r -> %r   [%s]  statement: %s" % (op, ty, vals, o, prof, d.get("statement")))
            if "exact" in d and not isinstance(o, str):
                ex, bd = Fraction(d["exact"]), Fraction(d["bound"])
                if abs(Fraction(o[0]) - ex) > bd:
                    print("   violates: exact=%s bound=%s" % (float(ex), float(bd)))
                    bad = 1
    return bad
