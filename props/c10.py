"""C10 — the quartic log-integral form evaluates accurately for every positive argument (engine E2; parts beyond reach stated)."""
import math
import os
import sys
from fractions import Fraction

import z3

sys.path.insert(0, os.path.join(os.path.dirname(os.path.dirname(os.path.abspath(__file__))), "e2"))
import api
import validate
from domains import FPDomain, RealDomain, Num
from engine import E2, model_value, show, purify
from interp import Unsupported, PathLimit, Interp

LEVEL = "proof"
FUNCS_T = ["exp_5_tail_taylor"]
FUNCS_A = ["exp_5_tail_anal"]
FUNCS_E = ["<IntOfLogPoly4 as Evaluate>::evaluate", "exp_5_taylor"]


def q(fr):
    fr = Fraction(fr)
    return z3.Q(fr.numerator, fr.denominator)


def S16(x):
    tot = z3.RealVal(0)
    pw = z3.RealVal(1)
    for m in range(16):
        tot = tot + pw * q(Fraction(1, math.factorial(m + 5)))
        pw = pw * x
    return tot


def P4(x):
    return 1 + x + x * x / 2 + x * x * x / 6 + x * x * x * x / 24


def reference(k, c, u, v):
    """60-digit value of k + v*sum c_j x^j + u*v*x^5*R(x), x=-ln v, and the sum of magnitudes of its terms."""
    import mpmath
    mpmath.mp.dps = 60
    v = mpmath.mpf(v)
    x = -mpmath.log(v)
    terms = [mpmath.mpf(k)] + [v * mpmath.mpf(cj) * x ** (j + 1) for j, cj in enumerate(c)]
    if x == 0:
        tail = mpmath.mpf(0)
    else:
        tail = mpmath.mpf(u) * v * (mpmath.exp(x) - sum(x ** j / mpmath.factorial(j) for j in range(5)))
    terms.append(tail)
    return sum(terms), sum(abs(t) for t in terms)


def concrete_check(e, k, c, u, v):
    import mpmath
    msgs = []
    for prof in ("dev", "release"):
        o = e.native.run([("eval", "ILP4", [k] + list(c) + [u, v])], prof)[0]
        if isinstance(o, str):
            msgs.append("%s: %s" % (prof, o))
            continue
        ref, mag = reference(k, c, u, v)
        if o[0] != o[0] or abs(mpmath.mpf(o[0]) - ref) > mpmath.mpf(10) ** -12 * mag:
            msgs.append("%s build: IntOfLogPoly4{k:%r,c:%r,u:%r}.evaluate(%r) = %r, reference %s, allowed error %s" % (
                prof, k, list(c), u, v, o[0], mpmath.nstr(ref, 20), mpmath.nstr(mpmath.mpf(10) ** -12 * mag, 5)))
    return msgs


def make_replay(e, kt, cts, ut, xt=None, vt=None, extra_x=()):
    def replay(model, ob):
        k = float(model_value(model, kt) or 0) if kt is not None else 0.0
        c = [float(model_value(model, t) or 0) for t in cts] if cts else [0.0] * 4
        u = float(model_value(model, ut) or 1) if ut is not None else 1.0
        if vt is not None:
            v = float(model_value(model, vt) or 1)
        else:
            xv = float(model_value(model, xt) or 0)
            v = math.exp(-xv)
        path = e.write_replay(ob.name, {"kind": "E2-native-ilp4", "k": k, "c": c, "u": u, "v": v,
                                        "statement": "evaluate within 1e-12 * sum of term magnitudes of k + v sum c_j x^j + u v x^5 R(x)"})
        # the solver's x is one point; scan its binary64 neighbourhood as well so that a boundary model still replays
        pts = [v]
        for s in (1, 2, 3, 8, 64):
            pts += [math.nextafter(v, math.inf) if s == 1 else v * (1 + s * 2.0 ** -52), v * (1 - s * 2.0 ** -52)]
        # also the points just inside the code's own thresholds (where a too-wide series interval hurts most)
        for ex in extra_x:
            pts.append(math.exp(-ex))
        bad = []
        for pv in pts:
            bad = concrete_check(e, k, c, u, pv)
            if bad:
                break
        if not bad:
            # the model is one witness of a structural deviation; the property's accuracy clauses bite hardest where terms
            # cancel or vanish: v next to 1 (x -> 0), the switch points, tiny and huge v, with k = 0 so nothing masks the error
            forms = [(0.0, [1.0, 0.0, 0.0, 0.0], 0.0), (0.0, [0.0, 0.0, 0.0, 0.0], 1.0), (0.0, [1.0, -2.0, 0.5, 3.0], -1.5),
                     (k, c, u)]
            stress = [0.9999999999999999, 1.0000000000000002, 1 - 1e-12, 1 + 1e-12, 1 - 1e-9, 1 + 1e-7, 1 - 3e-5, 1 + 4e-5, 0.999, 1.001,
                      math.exp(1.7099), math.exp(1.7101), math.exp(-1.7199), math.exp(-1.7201), 1e-8, 1e-3, 0.3, 3.0, 1e3, 1e8]
            for (kk, cc, uu) in forms:
                for pv in stress:
                    bad = concrete_check(e, kk, cc, uu, pv)
                    if bad:
                        break
                if bad:
                    break
        if bad:
            return True, path, "; ".join(bad[:2])
        return False, path, "model does not violate the statement natively (k=%r c=%r u=%r v=%r)" % (k, c, u, v)
    return replay


def thresholds(e):
    lo = e.program.consts.get("LOWER_THRES")
    hi = e.program.consts.get("UPPER_THRES")
    if lo is None or hi is None:
        raise Unsupported("threshold constants not found in the MIR dump")
    return float(lo.replace("f64", "")), float(hi.replace("f64", ""))


def series_identity(e):
    x = z3.Real("x")
    dom = RealDomain(False)
    p, nums = api.run_fn(e, dom, "exp_5_tail_taylor", lambda d: [d.sym("x")], label="C10")
    e.prove("exp_5_tail_taylor:exact-identity",
            "exact arithmetic (literal quotients 1/120 ... 1/20! as exact rationals), all real x: the Estrin tree equals sum_{m<16} x^m/(m+5)!",
            list(p.side), nums[0].t == S16(x), dom_name="real", functions=FUNCS_T, witness_terms={"x": x}, role="series-value",
            replay=make_replay(e, None, None, None, xt=x))


def series_rounding(e, lo, hi):
    """per-lane rounding factors of the 16-term Estrin (constants named), K = 72, and sum|c_m||x|^m <= 2 S16(x) on the branch interval."""
    x = z3.Real("x")
    dom = RealDomain(True, symbolic_const_div=True)
    p, nums = api.run_fn(e, dom, "exp_5_tail_taylor", lambda d: [d.sym("x")], label="C10")
    consts = list(dom.named_consts)
    R = nums[0].t
    if len(consts) != 16:
        e.not_encoded("exp_5_tail_taylor:rounding", "per-lane rounding", "expected 16 literal quotients, found %d" % len(consts), FUNCS_T)
        return
    dbounds = [z3.And(d >= -dom.u, d <= dom.u) for d in p.deltas]
    names = [c[0] for c in consts]
    lanes = [z3.substitute(R, *[(names[j], z3.RealVal(0)) for j in range(16) if j != i]) for i in range(16)]
    e.prove("exp_5_tail_taylor:rounding-linearity", "rounding model: the result is the sum of its 16 coefficient lanes (same rounding variables)",
            [], R == sum(lanes, z3.RealVal(0)), dom_name="real-delta", functions=FUNCS_T, witness_terms={"x": x}, role="series-rounding")
    K = 72
    pw = z3.RealVal(1)
    goals_shape, goals_bound = [], []
    for i in range(16):
        Fi = z3.simplify(z3.substitute(lanes[i], (names[i], z3.RealVal(1)), (x, z3.RealVal(1))))
        goals_shape.append(lanes[i] == names[i] * pw * Fi)
        goals_bound.append(z3.And(Fi - 1 <= K * dom.u, 1 - Fi <= K * dom.u))
        pw = pw * x
    e.prove("exp_5_tail_taylor:rounding-lane-shapes", "lane m == K_m * x^m * F_m(d) for m = 0..15", [], z3.And(*goals_shape),
            dom_name="real-delta", functions=FUNCS_T, witness_terms={"x": x}, role="series-rounding")
    e.prove("exp_5_tail_taylor:rounding-lane-bounds", "for all |d|<=2^-53: |F_m(d)-1| <= 72*2^-53 for every m (plus one rounding of the literal quotient)",
            dbounds, z3.And(*goals_bound), dom_name="real-delta", functions=FUNCS_T,
            witness_terms={str(d): d for d in p.deltas[:3]}, role="series-rounding")
    # literal quotients are within u relative of 1/(m+5)!
    okc = all(abs(c[1] - Fraction(1, math.factorial(m + 5))) <= Fraction(1, 2 ** 53) * Fraction(1, math.factorial(m + 5)) and
              c[2] == Fraction(1, math.factorial(m + 5)) for m, c in enumerate(consts))
    e.prove("exp_5_tail_taylor:literal-coefficients",
            "the 16 literal quotients of the MIR are exactly 1/(m+5)! as written and within 2^-53 relative once rounded (computed from the literals)",
            [], z3.BoolVal(okc), dom_name="real", functions=FUNCS_T, witness_terms={"x": x}, role="series-value",
            replay=make_replay(e, None, None, None, xt=x))
    # magnitude sum vs value on the branch interval
    ax = z3.If(x >= 0, x, -x)
    e.prove("exp_5_tail_taylor:magnitudes-vs-value",
            "for every real x with %r < x < %r (the thresholds read from the source): sum_m |x|^m/(m+5)! <= 2 * sum_m x^m/(m+5)!, so the rounding "
            "error 73u*sum|terms| is below 2e-14 relative" % (lo, hi), [x > q(Fraction(lo)), x < q(Fraction(hi))], S16(ax) <= 2 * S16(x),
            dom_name="real", functions=FUNCS_T + ["exp_5_taylor"], witness_terms={"x": x}, role="series-accuracy",
            replay=make_replay(e, None, None, None, xt=x))


def series_truncation(e, lo, hi):
    x = z3.Real("x")
    ax = z3.If(x >= 0, x, -x)
    # |R(x) - S16(x)| <= |x|^16/21! * 1/(1-|x|/22)   (geometric majorant of the property's own series; pen-and-paper step)
    pw16 = ax
    for _ in range(15):
        pw16 = pw16 * ax
    # majorant <= 1e-13 * S16(x)   <=>   |x|^16/21! <= 1e-13 * S16(x) * (1 - |x|/22)     (|x| < 22)
    e.prove("exp_5_taylor:series-truncation",
            "for every real x with %r < x < %r: the truncation error of the 16-term series, bounded by the geometric majorant "
            "|x|^16/21!/(1-|x|/22), is at most 1e-13 * S16(x)  (so moving a threshold outwards far enough makes this fail)" % (lo, hi),
            [x > q(Fraction(lo)), x < q(Fraction(hi))],
            z3.And(ax < 22, pw16 * q(Fraction(1, math.factorial(21))) <= q(Fraction(1, 10 ** 13)) * S16(x) * (1 - ax / 22)),
            dom_name="real", functions=["exp_5_taylor"], witness_terms={"x": x}, role="series-accuracy",
            replay=make_replay(e, None, None, None, xt=x, extra_x=[hi * (1 - 1e-9), lo * (1 - 1e-9)]))
    e.expect_sat("exp_5_taylor:series-truncation-twin", "twin: at |x| = 6 the same bound fails (the query is not vacuous)",
                 [x == 6, z3.Not(pw16 * q(Fraction(1, math.factorial(21))) <= q(Fraction(1, 10 ** 13)) * S16(x) * (1 - ax / 22))],
                 dom_name="real", functions=["exp_5_taylor"], witness_terms={"x": x})


def closed_form_identity(e):
    x = z3.Real("x")
    dom = RealDomain(False)
    p, nums = api.run_fn(e, dom, "exp_5_tail_anal", lambda d: [d.sym("x")], label="C10")
    result_t = nums[0].t
    # exp_real(arg): arg is recip(recip(x)) -> a quotient variable equal to x under the side constraints
    apps = []

    def walk(t):
        if z3.is_app(t):
            if t.decl().name() == "exp_real":
                apps.append(t)
            for ch in t.children():
                walk(ch)
    walk(result_t)
    if len(apps) < 1:
        e.not_encoded("exp_5_tail_anal:exact-identity", "closed form identity", "no exp application found", FUNCS_A)
        return
    E = z3.Real("E")
    arg = apps[0].arg(0)
    res = z3.substitute(result_t, (apps[0], E))
    x5 = x * x * x * x * x
    e.prove("exp_5_tail_anal:exact-identity",
            "exact arithmetic, all real x != 0: exp is applied to x itself (recip of recip) and the result times x^5 equals E - sum_{j<5} x^j/j!",
            list(p.side) + [x != 0], z3.And(arg == x, res * x5 == E - P4(x)), dom_name="real", functions=FUNCS_A,
            witness_terms={"x": x, "E": E}, role="closed-form-value", replay=make_replay(e, None, None, None, xt=x))


def closed_form_conditioning(e, lo, hi):
    x, E = z3.Real("x"), z3.Real("E")
    # x >= hi:  (E + P4(x)) / (E - P4(x)) <= 70 using E - P4 >= x^5/120 + x^6/720 + x^7/5040
    x5 = x * x * x * x * x
    low = x5 / 120 + x5 * x / 720 + x5 * x * x / 5040
    e.prove("exp_5_tail_anal:conditioning-upper",
            "for every real x >= %r: 2*P4(x) <= 69*(x^5/5!+x^6/6!+x^7/7!), hence (e^x + sum|x^j/j!|)/(e^x - sum x^j/j!) <= 70 there" % hi,
            [x >= q(Fraction(hi))], 2 * P4(x) <= 69 * low, dom_name="real", functions=FUNCS_A + ["exp_5_taylor"],
            witness_terms={"x": x}, role="closed-form-conditioning", replay=make_replay(e, None, None, None, xt=x))
    # x <= lo: 0 < E <= Ehi (rigorous rational upper bound of exp(lo); monotonicity of exp assumed)
    a = Fraction(-lo)
    s, term = Fraction(0), Fraction(1)
    for nn in range(1, 40):
        s += term
        term = term * a / nn
    Ehi = 1 / s  # exp(a) >= partial sum  =>  exp(-a) <= 1/partial sum
    Ehi = Fraction(math.ceil(Ehi * 10 ** 12), 10 ** 12)
    ax = -x
    Q4 = 1 + ax + ax * ax / 2 + ax * ax * ax / 6 + ax * ax * ax * ax / 24
    e.prove("exp_5_tail_anal:conditioning-lower",
            "for every real x <= %r and every E with 0 < E <= %s (>= exp(%r), rigorous rational bound): P4(x) - E > 0 and "
            "E + sum|x^j/j!| <= 70*(P4(x) - E)" % (lo, float(Ehi), lo),
            [x <= q(Fraction(lo)), E > 0, E <= q(Ehi)], z3.And(P4(x) - E > 0, E + Q4 <= 70 * (P4(x) - E)), dom_name="real",
            functions=FUNCS_A + ["exp_5_taylor"], witness_terms={"x": x, "E": E}, role="closed-form-conditioning",
            replay=make_replay(e, None, None, None, xt=x))


def evaluate_identity(e):
    """IntOfLogPoly4::evaluate(v) == k + v*sum c_j x^j + u*v*x^5*T(x), x = -ln v (T = exp_5_taylor as a stub symbol)."""
    dom = RealDomain(False)
    Tf = z3.Function("T_exp5", z3.RealSort(), z3.RealSort())

    def stub(it, args):
        return Num(dom, Tf(args[0].t))
    names = ["k", "c1", "c2", "c3", "c4", "u"]
    r = api.run(e, dom, "eval", "ILP4", lambda d: [d.sym(nm) for nm in names] + [d.sym("v")], stubs={"exp_5_taylor": stub})
    if len(r) != 1:
        e.not_encoded("IntOfLogPoly4::evaluate:identity", "evaluate identity", "unexpected fork", FUNCS_E)
        return
    res = r[0][1][0].t
    k, c1, c2, c3, c4, u, v = [z3.Real(nm) for nm in names + ["v"]]
    L = dom.ln_f(v)
    x = -L
    want = k + v * (c1 * x + c2 * x * x + c3 * x * x * x + c4 * x * x * x * x) + u * v * x * x * x * x * x * Tf(x)
    fs, _ = purify([z3.And(*r[0][0].side) if r[0][0].side else z3.BoolVal(True), res == want], names=("ln_real", "T_exp5"))
    e.prove("IntOfLogPoly4::evaluate:identity",
            "exact arithmetic, all real (k,c,u), v with ln v a free real: evaluate(v) == k + v*sum_{j=1..4} c_j x^j + u*v*x^5*T(x), x = -ln v, "
            "T = exp_5_taylor(x)", [fs[0]], fs[1], dom_name="real", functions=FUNCS_E,
            witness_terms={"k": k, "c1": c1, "u": u, "v": v}, role="ilp4-value", replay=make_replay(e, k, [c1, c2, c3, c4], u, vt=v),
            prefer=[v >= z3.Q(1, 2), v <= 3] + [z3.And(t >= -3, t <= 3) for t in (k, c1, c2, c3, c4, u)])


def fp_obligations(e, lo, hi):
    F = z3.Float64()
    # (i) branch selection
    dom = FPDomain()
    it = Interp(e.program, dom)
    calls = []

    def mk_stub(tag):
        def stub(it_, args):
            calls.append(tag)
            return dom.const(1.0 if tag == "series" else 2.0)
        return stub
    it.stubs = {"exp_5_tail_taylor": mk_stub("series"), "exp_5_tail_anal": mk_stub("closed")}
    fn = e.program.find("exp_5_taylor")
    paths = it.explore(fn, lambda d: [d.sym("x")])
    x = z3.FP("x", F)
    inside = z3.And(z3.fpLT(z3.FPVal(lo, F), x), z3.fpLT(x, z3.FPVal(hi, F)))
    goals = []
    for p in paths:
        took_series = p.result.conc == 1.0
        goals.append(z3.Implies(p.cond(), inside if took_series else z3.Not(inside)))
    e.prove("exp_5_taylor:branch", "bit-precise, all binary64 x (NaN included): the series is used exactly when %r < x < %r, the closed form otherwise"
            % (lo, hi), [], z3.And(*goals), dom_name="fp", functions=["exp_5_taylor"], witness_terms={"x": x}, role="ilp4-branch")
    # (ii) value at v = 1 is exactly k, for ln 1 = +0 and -0
    for zero, nm in ((0.0, "+0"), (-0.0, "-0")):
        dom = FPDomain()
        names = ["k", "c1", "c2", "c3", "c4", "u"]

        def ln_stub(val):
            return lambda it_, args: dom.const(val)
        # run evaluate with v = 1 and ln(1) supplied as +-0 through the domain's concrete ln
        it = Interp(e.program, dom)
        fn, args, post = api.build_call(e.program, "eval", "ILP4", [dom.sym(nm_) for nm_ in names] + [dom.const(1.0)])
        saved_ln = dom.ln
        dom.ln = lambda a, z=zero: dom.const(z)
        try:
            paths = it.explore(fn, lambda d: api.build_call(e.program, "eval", "ILP4", [d.sym(nm_) for nm_ in names] + [d.const(1.0)])[1])
        finally:
            dom.ln = saved_ln
        syms = [z3.FP(nm_, F) for nm_ in names]
        fin = [z3.And(z3.Not(z3.fpIsNaN(s)), z3.Not(z3.fpIsInf(s))) for s in syms]
        goals = [z3.Implies(p.cond(), z3.fpEQ(p.result.t, syms[0])) for p in paths if p.panic is None]
        e.prove("IntOfLogPoly4::evaluate:at-one[ln1=%s]" % nm,
                "bit-precise, all finite (k,c,u): evaluate(1.0) == k exactly when ln(1.0) returns %s" % nm, fin, z3.And(*goals),
                dom_name="fp", functions=FUNCS_E + FUNCS_T, witness_terms={"k": syms[0], "u": syms[5]}, role="ilp4-at-one",
                replay=make_replay(e, syms[0], syms[1:5], syms[5], vt=None, xt=None))


def run(rep, tier):
    e = E2(rep, tier)
    rep.explanation = ("IntOfLogPoly4::evaluate and the two exponential-tail routines executed symbolically from MIR. Decided by z3: the "
                       "exact-arithmetic identities of series, closed form and evaluate; the branch thresholds (read from the MIR) "
                       "bit-precisely; value at v=1 exactly k; series truncation <= 1e-13 relative and per-lane rounding <= 73u on the "
                       "branch interval; conditioning <= 70 of the closed form outside it.")
    rep.bounds = {"outside": "accuracy of libm ln/exp (assumed <= 1 ulp, deterministic); overflow of exp(x) for subnormal v; the rounding "
                  "lanes of the closed form (only its conditioning is decided); a bit-precise sweep over floats near v=1 is replaced by "
                  "the symbolic all-x statements"}
    rep.assumptions += ["geometric majorant |R(x)-S16(x)| <= |x|^16/21!/(1-|x|/22) for |x|<22 (pen-and-paper step)",
                        "exp is monotone and positive (used for x <= lower threshold)"]
    specs = [("eval", "ILP4", 7, (6,))]
    if validate.validate(e, specs, seed=rep.seed, n_rand=12):
        try:
            lo, hi = thresholds(e)
            rep.bounds["thresholds_read_from_mir"] = [lo, hi]
            series_identity(e)
            closed_form_identity(e)
            evaluate_identity(e)
            series_truncation(e, lo, hi)
            series_rounding(e, lo, hi)
            closed_form_conditioning(e, lo, hi)
            fp_obligations(e, lo, hi)
        except (Unsupported, PathLimit) as ex:
            e.not_encoded("C10", "quartic log-integral obligations", ex, FUNCS_E)
    e.finish()


def replay(path):
    import json
    from engine import Native
    d = json.load(open(path))

    class _E:
        pass
    e = _E()
    e.native = Native()
    msgs = concrete_check(e, d["k"], d["c"], d["u"], d["v"])
    for m in msgs:
        print("violates: " + m)
    return 1 if msgs else 0
