"""C04 — constrained_spline interpolates its knots with a continuous first derivative (engine E2, whole function)."""
import os
import sys
from fractions import Fraction

import z3

sys.path.insert(0, os.path.join(os.path.dirname(os.path.dirname(os.path.abspath(__file__))), "e2"))
import api
import splinelib as sl
import validate
from domains import FPDomain, RealDomain
from engine import E2, model_value, show
from interp import Unsupported, PathLimit

LEVEL = "proof"
FUNCS = ["constrained_spline", "constrained_spline::{closure#0}", "constrained_spline::{closure#1}", "f_dx", "spline::segment"]
U = Fraction(1, 2 ** 53)


def pre_increasing(xs):
    return [xs[i] < xs[i + 1] for i in range(len(xs) - 1)]


def prefer_nice(xs, ys):
    c = []
    for i, x in enumerate(xs):
        c.append(z3.And(x >= -4, x <= 4))
        if i:
            c.append(x - xs[i - 1] >= z3.Q(1, 4))
    for y in ys:
        c.append(z3.And(y >= -8, y <= 8))
    return c


def fr_eval(c, x):
    return sum((Fraction(ci) * Fraction(x) ** i for i, ci in enumerate(c)), Fraction(0))


def fr_deval(c, x):
    return sum((i * Fraction(ci) * Fraction(x) ** (i - 1) for i, ci in enumerate(c) if i >= 1), Fraction(0))


def concrete_spline_check(xs, ys, out, extra_t=None):
    """Concrete statement of C04/C05 on native output `out` (flat [end,a,b,c,d]*). Returns list of messages."""
    n = len(xs)
    msgs = []
    if isinstance(out, str):
        return ["constrained_spline: " + out]
    if len(out) != 5 * (n - 1):
        return ["constrained_spline returned %d numbers for %d knots" % (len(out), n)]
    segs = [(out[5 * i], out[5 * i + 1:5 * i + 5]) for i in range(n - 1)]
    if any(v != v or v in (float("inf"), float("-inf")) for v in out):
        return ["non-finite output %r" % (out,)]
    dxmin = min(Fraction(xs[i + 1]) - Fraction(xs[i]) for i in range(n - 1))
    cond = max(Fraction(1), max(abs(Fraction(x)) for x in xs) / dxmin)
    slopes = [(Fraction(ys[i + 1]) - Fraction(ys[i])) / (Fraction(xs[i + 1]) - Fraction(xs[i])) for i in range(n - 1)]
    smax = max([abs(s) for s in slopes] + [Fraction(1, 10 ** 300)])
    for i, (end, c) in enumerate(segs):
        if end != xs[i + 1]:
            msgs.append("segment %d: end %r is not knot abscissa %r" % (i, end, xs[i + 1]))
        mag = max(abs(Fraction(ys[i])), abs(Fraction(ys[i + 1])), Fraction(1)) + sum(
            abs(Fraction(cj)) * max(abs(Fraction(xs[i])), abs(Fraction(xs[i + 1]))) ** j for j, cj in enumerate(c))
        tol = Fraction(1, 10 ** 9) * mag * cond ** 3
        for (xx, yy, which) in ((xs[i], ys[i], "left"), (xs[i + 1], ys[i + 1], "right")):
            v = fr_eval(c, xx)
            if abs(v - Fraction(yy)) > tol:
                msgs.append("segment %d does not pass through its %s knot: p(%r)=%s, y=%r" % (i, which, xx, show(v), yy))
    # derivative conditions
    dtol = Fraction(1, 10 ** 7) * smax * cond ** 3
    f_mid = []
    for k in range(1, n - 1):
        s01, s12 = slopes[k - 1], slopes[k]
        want = Fraction(0) if s01 * s12 <= 0 else 2 / (1 / s01 + 1 / s12)
        f_mid.append(want)
        dl = fr_deval(segs[k - 1][1], xs[k])
        dr = fr_deval(segs[k][1], xs[k])
        if abs(dl - dr) > dtol:
            msgs.append("first derivative jumps at interior knot %d: %s vs %s" % (k, show(dl), show(dr)))
        if abs(dl - want) > dtol:
            msgs.append("slope at interior knot %d is %s, harmonic-mean rule gives %s" % (k, show(dl), show(want)))
    d0 = fr_deval(segs[0][1], xs[0])
    want0 = Fraction(3, 2) * slopes[0] - Fraction(1, 2) * f_mid[0]
    if abs(d0 - want0) > dtol:
        msgs.append("slope at first knot is %s, end rule gives %s" % (show(d0), show(want0)))
    dn = fr_deval(segs[-1][1], xs[-1])
    wantn = Fraction(3, 2) * slopes[-1] - Fraction(1, 2) * f_mid[-1]
    if abs(dn - wantn) > dtol:
        msgs.append("slope at last knot is %s, end rule gives %s" % (show(dn), show(wantn)))
    return msgs


def make_replay(e, n, xs, ys, checker=concrete_spline_check, statement="C04 Hermite/C1/harmonic-mean conditions"):
    def replay(model, ob):
        xv = [model_value(model, x) for x in xs]
        yv = [model_value(model, y) for y in ys]
        xv = [0.0 if v is None else float(v) for v in xv]
        yv = [0.0 if v is None else float(v) for v in yv]
        flat = []
        for a, b in zip(xv, yv):
            flat += [a, b]
        path = e.write_replay(ob.name, {"kind": "E2-native-spline", "requests": [["spline", "-", flat]],
                                        "statement": statement})
        cands = []
        if all(xv[i] < xv[i + 1] for i in range(n - 1)):
            cands.append((xv, yv))
        # signed-zero secants: a zero slope can be +0.0 or -0.0 in binary64 (dy = -0.0 - 0.0), which exact arithmetic does not
        # distinguish; a deviation that only shows as inf/NaN from 1/(+-0) needs such inputs to reproduce
        grid = [float(i) for i in range(n)]
        cands.append((grid, [0.0 if i % 2 == 0 else -0.0 for i in range(n)]))
        cands.append((grid, [-0.0 if i % 2 == 0 else 0.0 for i in range(n)]))
        cands.append((grid, [0.0, -0.0] + [float(i) for i in range(1, n - 1)]))
        cands.append((grid, [float(n - i) for i in range(n - 2)] + [0.0, -0.0]))
        if not cands:
            return False, path, "model abscissae collapse when rounded to binary64: %r" % (xv,)
        for (cx, cy) in cands:
            fl = []
            for a, b in zip(cx, cy):
                fl += [a, b]
            bad = []
            for prof in ("dev", "release"):
                o = e.native.run([("spline", "-", fl)], prof)[0]
                for m in checker(cx, cy, o):
                    bad.append("%s build, knots %r: %s" % (prof, list(zip(cx, cy)), m))
            if bad:
                path = e.write_replay(ob.name, {"kind": "E2-native-spline", "requests": [["spline", "-", fl]], "statement": statement})
                return True, path, "; ".join(bad[:3])
        return False, path, "model %r does not violate the concrete statement natively" % (list(zip(xv, yv)),)
    return replay


DESCR = {"end": "segment end is the interval's right abscissa", "left": "cubic passes through its left knot",
         "right": "cubic passes through its right knot", "C1@": "adjacent cubics have the same first derivative at the knot",
         "harmonic": "interior-knot slope is the harmonic mean of the adjacent secant slopes (0 if they differ in sign or one is 0)",
         "endslope": "end-knot slope is 3/2 of the end secant slope minus half the neighbouring knot slope",
         "segments": "one cubic per knot interval"}


def exact_obligations(e, n, group=None):
    """group=(k, K): only the branch patterns with index % K == k (used by the parallel parts)"""
    xs, ys = sl.rvars(n)
    pre = pre_increasing(xs)
    wt = {("x%d" % i): xs[i] for i in range(n)}
    wt.update({("y%d" % i): ys[i] for i in range(n)})
    try:
        dom = RealDomain(False)
        res = sl.explore(e, "constrained_spline", n, dom, pre=pre)
    except (Unsupported, PathLimit) as ex:
        e.not_encoded("spline[n=%d]" % n, "whole-function encoding of constrained_spline", ex, FUNCS)
        return
    replay = make_replay(e, n, xs, ys)
    nice = prefer_nice(xs, ys)
    if group is None or group[0] == 0:
        e.rep.self_tests["spline_paths_n%d" % n] = len(res)
    for pidx, (p, segs) in enumerate(res):
        if group is not None and pidx % group[1] != group[0]:
            continue
        tag = "spline[n=%d,path=%s]" % (n, "".join("T" if d else "F" for d in p.decisions))
        assum = pre + list(p.conds) + list(p.side)
        if segs is None:
            # a panic on admissible input would be a violation of C16; here it makes the path unencodable
            e.prove(tag + ":no-panic", "constrained_spline does not panic on %d strictly increasing knots (%s)" % (n, p.panic),
                    [], z3.Not(z3.And(*(pre + list(p.conds) + list(p.side)))), dom_name="real", functions=FUNCS,
                    witness_terms=wt, role="spline-panic", replay=replay, prefer=nice)
            continue
        # divisions: no divisor can vanish under the precondition on this path
        if p.nonzero and (group is None or len(group) < 4 or group[2] == 0):
            e.prove_cases(tag + ":divisors-nonzero",
                          "on this path no divisor of the construction is zero for strictly increasing abscissae (%d divisions; each "
                          "divisor under the path condition and the quotients defined before it)" % len(p.nonzero),
                          pre + list(p.conds), sl.divisor_cases(p), dom_name="real", functions=FUNCS, witness_terms=wt,
                          role="spline-division-by-zero", replay=replay, prefer=nice)
        goals = []
        if len(segs) != n - 1:
            goals.append(("segments", z3.BoolVal(False)))
        else:
            coef = [[c.t for c in cs] for (_, cs) in segs]
            slopes = [(ys[i + 1] - ys[i]) / (xs[i + 1] - xs[i]) for i in range(n - 1)]
            for i in range(n - 1):
                goals.append(("end%d" % i, segs[i][0].t == xs[i + 1]))
                goals.append(("left%d" % i, sl.pev(coef[i], xs[i]) == ys[i]))
                goals.append(("right%d" % i, sl.pev(coef[i], xs[i + 1]) == ys[i + 1]))
            fmid = []
            for k in range(1, n - 1):
                dl = sl.pdev(coef[k - 1], xs[k])
                dr = sl.pdev(coef[k], xs[k])
                s01, s12 = slopes[k - 1], slopes[k]
                goals.append(("C1@%d" % k, dl == dr))
                goals.append(("harmonic@%d" % k, z3.If(s01 * s12 <= 0, dl == 0, dl * (s01 + s12) == 2 * s01 * s12)))
                fmid.append(dl)
            goals.append(("endslope@0", sl.pdev(coef[0], xs[0]) == z3.Q(3, 2) * slopes[0] - z3.Q(1, 2) * fmid[0]))
            goals.append(("endslope@%d" % (n - 1),
                          sl.pdev(coef[-1], xs[-1]) == z3.Q(3, 2) * slopes[-1] - z3.Q(1, 2) * fmid[-1]))
        for gidx, (nm, g) in enumerate(goals):
            if group is not None and len(group) == 4 and gidx % group[3] != group[2]:
                continue
            e.prove("%s:%s" % (tag, nm),
                    DESCR[[k for k in DESCR if nm.startswith(k)][0]] +
                    " -- exact arithmetic, all real knots with strictly increasing x, %d knots, this f_dx branch pattern" % n,
                    assum, g, dom_name="real", functions=FUNCS, witness_terms=wt, role="spline-" + nm.split("@")[0].rstrip("0123456789"),
                    replay=replay, prefer=nice)


def fp_end_verbatim(e, n):
    """bit-precise: every segment end is the knot abscissa verbatim (same binary64 value), on every path."""
    xs, ys = sl.fvars(n)
    try:
        dom = FPDomain()
        res = sl.explore(e, "constrained_spline", n, dom)
    except (Unsupported, PathLimit) as ex:
        e.not_encoded("spline-fp[n=%d]:end-verbatim" % n, "ends verbatim", ex, FUNCS)
        return
    goals = []
    for (p, segs) in res:
        if segs is None or len(segs) != n - 1:
            goals.append(z3.BoolVal(False))
            continue
        # the end term must be *syntactically* the input symbol: no arithmetic touched it
        goals.append(z3.BoolVal(all(z3.eq(segs[i][0].t, xs[i + 1]) for i in range(n - 1))))
    e.prove("spline-fp[n=%d]:end-verbatim" % n,
            "bit-precise, all binary64 knots, all %d branch patterns: each of the %d segments carries its interval's right abscissa "
            "untouched by arithmetic" % (len(res), n - 1),
            [], z3.And(*goals), dom_name="fp", functions=FUNCS, witness_terms={"x1": xs[1]}, role="spline-end")


def rounding_left_knot(e):
    """|p(x0)-y0| <= 12u(|y0|+|b x0|+|c x0^2|+|d x0^3|) for the kernel `segment`, b, c, d arbitrary (a is defined from them)."""
    funcs = ["spline::segment"]
    try:
        dom = RealDomain(True)
        it = e.interp(dom)
        fn = e.program.find_kernel("spline::segment", "spline", ["f64", "Knot", "f64", "Knot"], "Poly3")
        funcs = [fn.name]
        from interp import Struct

        def mk(d):
            return [d.sym("f0"), Struct("Knot", [d.sym("x0"), d.sym("y0")]), d.sym("f1"), Struct("Knot", [d.sym("x1"), d.sym("y1")])]
        paths = it.explore(fn, mk)
        p = paths[0]
        a, b, c, d = [t.t for t in api.flat(p.result.fields[1])]
    except (Unsupported, PathLimit, Exception) as ex:
        e.not_encoded("segment:left-knot-rounding", "left-knot residual bound", ex, funcs)
        return
    x0, y0 = z3.Real("x0"), z3.Real("y0")
    B, C, D = z3.Real("B"), z3.Real("C"), z3.Real("D")
    # make b, c, d free: `a` is computed from them; substitute the larger terms first
    a_free = z3.substitute(a, (b, B))
    a_free = z3.substitute(a_free, (c, C))
    a_free = z3.substitute(a_free, (d, D))
    leftover = [v for v in z3.z3util.get_vars(a_free) if str(v) in ("f0", "f1", "x1", "y1") or str(v).startswith("q!")]
    if leftover:
        e.not_encoded("segment:left-knot-rounding", "left-knot residual bound",
                      "could not isolate b, c, d in the term for a (left: %s)" % leftover, funcs)
        return
    Res = a_free + B * x0 + C * x0 * x0 + D * x0 * x0 * x0 - y0
    deltas = [v for v in z3.z3util.get_vars(Res) if str(v).startswith("d!")]
    dbounds = [z3.And(dl >= -dom.u, dl <= dom.u) for dl in deltas]
    data = [y0, B, C, D]
    lanes = [z3.substitute(Res, *[(w, z3.RealVal(0)) for j, w in enumerate(data) if j != i]) for i in range(4)]
    e.prove("segment:left-knot-residual-linearity",
            "rounding model: p_d(x0) - y0 (with a computed by the code from arbitrary b,c,d) is the sum of its (y0,b,c,d) lanes",
            [], Res == sum(lanes, z3.RealVal(0)), dom_name="real-delta", functions=funcs, witness_terms={"x0": x0, "y0": y0},
            role="spline-left-knot-rounding")
    K = 12
    pw = [z3.RealVal(1), x0, x0 * x0, x0 * x0 * x0]
    for i, v in enumerate(data):
        G = z3.simplify(z3.substitute(lanes[i], (v, z3.RealVal(1)), (x0, z3.RealVal(1))))
        e.prove("segment:left-knot-lane%d-shape" % i, "lane %s: residual == %s * x0^%d * G(d)" % (v, v, i), [],
                lanes[i] == v * pw[i] * G, dom_name="real-delta", functions=funcs, witness_terms={"x0": x0},
                role="spline-left-knot-rounding")
        e.prove("segment:left-knot-lane%d-bound" % i,
                "for all |d|<=2^-53: |G(d)| <= %d*2^-53, hence |p(x0)-y0| <= 12u(|y0|+|b x0|+|c x0^2|+|d x0^3|)" % K,
                dbounds, z3.And(G <= K * dom.u, -G <= K * dom.u), dom_name="real-delta", functions=funcs,
                witness_terms={str(dl): dl for dl in deltas[:3]}, role="spline-left-knot-rounding")
    e.expect_sat("segment:left-knot-tightness", "tightness twin: the y0 lane's factor can exceed 2.5u",
                 dbounds + [z3.simplify(z3.substitute(lanes[0], (y0, z3.RealVal(1)))) > z3.Q(5, 2) * dom.u],
                 dom_name="real-delta", functions=funcs)


def run_part(rep, tier, part):
    f = part.split(":")
    e = E2(rep, tier)
    # the hardest n=7 goals take ~17 s on an idle machine; the default quick cap of 20 s per query would turn them into
    # "unknown" (exit 2) as soon as the machine is loaded, so the parts get a cap with head-room
    e.cap_ms = max(e.cap_ms, 90000)
    exact_obligations(e, int(f[1]), group=tuple(int(x) for x in f[2:]))
    e.finish()


def big_parts(tier):
    """knot counts decided in parallel subprocesses: (n, number of path groups)"""
    # one part per f_dx branch pattern (2^(n-2) of them): their difficulty is very uneven, the pool balances them
    cfg = [(7, 32)] if tier == "quick" else [(5, 8), (6, 16), (7, 32), (8, 64)]
    J = 6  # and the goals of one pattern in J slices (the all-harmonic patterns carry most of the solver time)
    return ["exact:%d:%d:%d:%d:%d" % (n, k, K, j, J) for (n, K) in cfg for k in reversed(range(K)) for j in range(J)], [n for (n, _) in cfg]


def run(rep, tier):
    e = E2(rep, tier)
    ns = [3, 4]
    rep.explanation = ("constrained_spline is executed symbolically as a whole (slicing, zips, closures, f_dx, segment) from its MIR "
                       "for each knot count; for every f_dx branch pattern z3 (nlsat) proves over all real knots with strictly "
                       "increasing x the Hermite, C1, harmonic-mean and end-slope identities and that no divisor vanishes; ends "
                       "verbatim in bit-precise FP; left-knot rounding bound of the kernel per monomial.")
    parts, bigs = big_parts(tier)
    rep.bounds = {"knots": ns + bigs, "outside": "more knots than listed (the glue is the same iterator pipeline; no induction claimed); "
                  "rounding bounds at the right knot and for derivatives (conditioning (|x|/dx)^3) are not decided"}
    specs = [("spline", "-", 2 * n, ()) for n in (3, 4, 5)]
    if validate_spline(e, rep.seed):
        for n in ns:
            exact_obligations(e, n)
        for n in ns[:2]:
            fp_end_verbatim(e, n)
        rounding_left_knot(e)
        import parallel
        parallel.run_parts(rep, tier, parts, mir_text=e.mir_text, sources=e.sources)
    e.finish()


def validate_spline(e, seed):
    """translator validation on strictly increasing knots (repo test vectors + random)."""
    import random
    from common import Obligation
    rnd = random.Random(seed)
    cases = [[0.0, 0.0, 1.0, 1.0, 2.0, 2.0, 3.0, 3.0],
             [7.807257773555076e-2, 0.9738453165629335, 0.6947124479037923, 0.35869674342227553,
              0.6844348417809908, 0.8995724066083576, 0.7267839023721823, 0.6997825656440388],
             [-7.679272597449861e18, 1.930746322207704e18, 6.358929964150921e18, -7.235865377340728e18,
              1.3625011620979218e18, 7.384377884237804e18, 7.408886893918922e18, -6.623845605108912e18]]
    for n in (3, 4, 5):
        for _ in range(3):
            x = sorted(rnd.uniform(-5, 5) for _ in range(n))
            c = []
            for xi in x:
                c += [xi, float(rnd.randint(-3, 3)) if rnd.random() < 0.5 else rnd.uniform(-3, 3)]
            cases.append(c)
    bad = None
    for c in cases:
        nat = e.native.run([("spline", "-", c)], "dev")[0]
        natr = e.native.run([("spline", "-", c)], "release")[0]
        dom = FPDomain()
        res = api.run(e, dom, "spline", "-", lambda d: [d.const(v) for v in c])
        got = [x.conc for x in res[0][1]] if res and res[0][1] is not None else None
        if isinstance(nat, str) or got is None or len(got) != len(nat) or not all(
                validate.same_bits(a, b) for a, b in zip(got, nat)) or not all(validate.same_bits(a, b) for a, b in zip(nat, natr)):
            bad = "constrained_spline(%r): interpreter %r, native %r / %r" % (c, got, nat, natr)
            break
    if bad:
        e.rep.add(Obligation("selftest:spline", "E2-selftest", "interpreter reproduces native constrained_spline bit for bit",
                             "inconclusive", detail=bad))
        return False
    e.rep.add(Obligation("selftest:spline", "E2-selftest",
                         "MIR interpreter reproduces native constrained_spline (dev and release) bit for bit on %d knot sets "
                         "(the repo's three test vectors + seeded random, 3..5 knots)" % len(cases), "discharged",
                         witness={"sample_knots": cases[1]}))
    e.rep.self_tests["translator_validation_cases"] = e.rep.self_tests.get("translator_validation_cases", 0) + len(cases)
    return True


def replay(path):
    import json
    from engine import Native
    d = json.load(open(path))
    nat = Native()
    bad = 0
    for (op, ty, vals) in d["requests"]:
        xs, ys = vals[0::2], vals[1::2]
        for prof in ("dev", "release"):
            o = nat.run([(op, ty, vals)], prof)[0]
            msgs = concrete_spline_check(xs, ys, o)
            print("%s build: constrained_spline(%r) -> %r" % (prof, list(zip(xs, ys)), o))
            for m in msgs:
                print("   violates: " + m)
                bad = 1
    return bad
