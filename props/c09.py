"""C09 — integrals of log-polynomials are true antiderivatives for every degree (engine E2)."""
import math
import os
import sys
from fractions import Fraction

import z3

sys.path.insert(0, os.path.join(os.path.dirname(os.path.dirname(os.path.abspath(__file__))), "e2"))
import api
import validate
from domains import FPDomain, RealDomain, Num
from engine import E2, model_value, show, purify
from interp import Unsupported, PathLimit

LEVEL = "proof"


def out_type(k):
    return "ILP4" if k == 4 else "IL%d" % k


def G_oracle(ps, v, L):
    """textbook antiderivative of p(ln t):  v * sum_i p_i sum_{j<=i} (-1)^(i-j) i!/j! L^j"""
    total = z3.RealVal(0)
    Lp = [z3.RealVal(1)]
    for _ in range(len(ps)):
        Lp.append(Lp[-1] * L)
    for i, pi in enumerate(ps):
        inner = z3.RealVal(0)
        for j in range(i + 1):
            coef = Fraction((-1) ** (i - j) * math.factorial(i), math.factorial(j))
            inner = inner + z3.Q(coef.numerator, coef.denominator) * Lp[j]
        total = total + pi * inner
    return v * total


def R_stub(dom):
    """exp_5_taylor(x) abstracted to the real function R it is meant to compute (C10 ties the code to R)."""
    Rf = z3.Function("R_exp5", z3.RealSort(), z3.RealSort())

    def stub(it, args):
        return Num(dom, Rf(args[0].t))
    return stub, Rf


def eval_at(e, dom, ty, nums, point_name, stubs):
    r = api.run(e, dom, "eval", ty, lambda d: list(nums) + [d.sym(point_name)], stubs=stubs)
    if len(r) != 1 or r[0][0].panic is not None:
        raise Unsupported("evaluate of %s forks or panics" % ty)
    return r[0][1][0].t, r[0][0]


def mp_exact_integral(ps, a, b):
    """integral_a^b p(ln t) dt with 60 digits (mpmath)."""
    import mpmath
    mpmath.mp.dps = 60

    def G(v):
        L = mpmath.log(mpmath.mpf(v))
        tot = mpmath.mpf(0)
        for i, pi in enumerate(ps):
            inner = mpmath.mpf(0)
            for j in range(i + 1):
                inner += mpmath.mpf((-1) ** (i - j)) * mpmath.factorial(i) / mpmath.factorial(j) * L ** j
            tot += mpmath.mpf(pi) * inner
        return mpmath.mpf(v) * tot
    return G(b) - G(a), abs(G(b)) + abs(G(a))


def native_antiderivative_check(e, k, ps, kx, ky, a, b, use_indef=False):
    """Run the real crate: F = integral(knot) (or indefinite()); compare F(b)-F(a) with the exact integral; F(kx) with ky."""
    ty_in, ty_out = "LP%d" % k, out_type(k)
    msgs = []
    for prof in ("dev", "release"):
        if use_indef:
            F = e.native.run([("indef", ty_in, list(ps))], prof)[0]
        else:
            F = e.native.run([("integ", ty_in, list(ps) + [kx, ky])], prof)[0]
        if isinstance(F, str):
            msgs.append("%s: %s" % (prof, F))
            continue
        vals = e.native.run([("eval", ty_out, list(F) + [a]), ("eval", ty_out, list(F) + [b]), ("eval", ty_out, list(F) + [kx])], prof)
        Fa, Fb, Fk = vals[0][0], vals[1][0], vals[2][0]
        exact, mag = mp_exact_integral(ps, a, b)
        import mpmath
        tol = mpmath.mpf(10) ** -9 * (mag + abs(mpmath.mpf(Fa)) + abs(mpmath.mpf(Fb)) + 1)
        if not (abs((mpmath.mpf(Fb) - mpmath.mpf(Fa)) - exact) <= tol):
            msgs.append("%s build: Log<Poly%d>(%r).%s: F(%r)-F(%r) = %r but the integral of p(ln t) over [%r,%r] is %s" % (
                prof, k, list(ps), "indefinite()" if use_indef else "integral((%r,%r))" % (kx, ky), b, a, Fb - Fa, a, b,
                mpmath.nstr(exact, 17)))
        if not use_indef and not (abs(Fk - ky) <= 1e-9 * (abs(ky) + abs(float(mag)) + 1)):
            msgs.append("%s build: F(knot.x)=%r but knot.y=%r" % (prof, Fk, ky))
    return msgs


def check_degree(e, k):
    label = "Log<Poly%d>" % k
    ty_in, ty_out = "LP%d" % k, out_type(k)
    names = ["p%d" % i for i in range(k + 1)]
    funcs = ["<Log<Poly%d> as HasIntegral>::integral" % k, "<Log<Poly%d> as HasIntegral>::indefinite" % k,
             "<%s as Evaluate>::evaluate" % ("IntOfLogPoly4" if k == 4 else "IntOfLog<Poly%d>" % k),
             "<%s as Translate>::translate" % ("IntOfLogPoly4" if k == 4 else "IntOfLog<T>")]
    ps = [z3.Real(nm) for nm in names]
    kx, ky, v, w = z3.Real("kx"), z3.Real("ky"), z3.Real("v"), z3.Real("w")
    pos = [kx > 0, v > 0, w > 0]
    wt = {nm: p for nm, p in zip(names, ps)}
    wt.update({"kx": kx, "ky": ky, "v": v, "w": w})
    # readable models away from ln = 0 (at 1 every log-integral form collapses to its constant)
    nice = [z3.And(t >= -3, t <= 3) for t in ps + [ky]] + [kx >= 2, kx <= 3, v >= z3.Q(3, 2), v <= 4, w >= 5, w <= 6]

    def replay_for(use_indef):
        def replay(model, ob):
            pv = [float(model_value(model, t) or 0) for t in ps]
            kxv = float(model_value(model, kx) or 1)
            kyv = float(model_value(model, ky) or 0)
            a = float(model_value(model, v) or 1)
            b = float(model_value(model, w) or 2)
            if a == b:
                b = a * 2
            # ln is a free symbol in the query; natively it is the real logarithm, so points with ln = 0 hide defects
            if kxv == 1.0:
                kxv = 2.5
            if a == 1.0:
                a = 1.75
            if b == 1.0:
                b = 3.25
            # the solver's knot may sit where the real logarithm hides the deviation (ln is free in the query: a model with
            # knot.x = 1 or with an ln value no real point has); the model's coefficients are therefore also tried with knots on
            # both sides of 1, near 1 and far from it -- every one of them is an input the property quantifies over
            cands = [kxv] + [c for c in (0.5, 2.5, 0.125, 10.0, 1.0 - 2.0 ** -10, 1.0 + 2.0 ** -10, 1e-3) if c != kxv]
            if all(p == 0 for p in pv):
                pv = [1.0 + i for i in range(len(pv))]
            path = None
            for kxc in cands:
                pth = e.write_replay(ob.name, {"kind": "E2-native-logint", "degree": k, "p": pv, "kx": kxc, "ky": kyv, "a": a, "b": b,
                                               "indefinite": use_indef,
                                               "statement": "F(b)-F(a) equals the integral of p(ln t) over [a,b]; F(knot.x)=knot.y"})
                path = path or pth
                msgs = native_antiderivative_check(e, k, pv, kxc, kyv, a, b, use_indef)
                if msgs:
                    return True, pth, "; ".join(msgs[:2])
                if use_indef:
                    break
            return False, path, "model does not violate the statement natively"
        return replay

    try:
        dom = RealDomain(False)
        stub, Rf = R_stub(dom)
        stubs = {"exp_5_taylor": stub}
        r = api.run(e, dom, "integ", ty_in, lambda d: [d.sym(nm) for nm in names] + [d.sym("kx"), d.sym("ky")], stubs=stubs)
        if len(r) != 1 or r[0][0].panic is not None:
            raise Unsupported("integral forks or panics")
        Fnums = r[0][1]
        side = list(r[0][0].side)
        Fv, pv_ = eval_at(e, dom, ty_out, Fnums, "v", stubs)
        Fw, pw_ = eval_at(e, dom, ty_out, Fnums, "w", stubs)
        Fk, pk_ = eval_at(e, dom, ty_out, Fnums, "kx", stubs)
        side += list(pv_.side) + list(pw_.side) + list(pk_.side)
        ri = api.run(e, dom, "indef", ty_in, lambda d: [d.sym(nm) for nm in names], stubs=stubs)
        Inums = ri[0][1]
        Iv, q1 = eval_at(e, dom, ty_out, Inums, "v", stubs)
        Iw, q2 = eval_at(e, dom, ty_out, Inums, "w", stubs)
        iside = list(ri[0][0].side) + list(q1.side) + list(q2.side)
    except (Unsupported, PathLimit) as ex:
        e.not_encoded("%s:antiderivative" % label, "F(b)-F(a) == integral of p(ln t)", ex, funcs)
        return
    lnf = dom.ln_f
    Lv, Lw, Lk = lnf(v), lnf(w), lnf(kx)
    axioms = []
    if k == 4:
        # the defining relation of R at x = -ln t, with exp(-ln t) = 1/t:   x^5 R(x) t = 1 - t sum_{j<5} x^j/j!
        for (tt, LL) in ((v, Lv), (w, Lw), (kx, Lk)):
            x = -LL
            s5 = 1 + x + x * x / 2 + x * x * x / 6 + x * x * x * x / 24
            axioms.append(x * x * x * x * x * Rf(x) * tt == 1 - tt * s5)
    goalA = Fv - G_oracle(ps, v, Lv) == Fw - G_oracle(ps, w, Lw)
    goalK = Fk == ky
    goalI = Iv - G_oracle(ps, v, Lv) == Iw - G_oracle(ps, w, Lw)
    for (nm, goal, sd, what, role, use_indef) in (
            ("antiderivative", goalA, side, "F = integral(knot): F(v) - G(v) is the same for any two points v, w > 0, where G is the textbook "
             "antiderivative v*sum_i p_i sum_j (-1)^(i-j) i!/j! (ln v)^j; hence F(b)-F(a) = integral of p(ln t) over [a,b]", "log-antiderivative", False),
            ("through-knot", goalK, side, "F = integral(knot) takes the value knot.y at knot.x (exact arithmetic)", "log-integral-knot", False),
            ("indefinite", goalI, iside, "indefinite() differs from the textbook antiderivative G by a constant", "log-antiderivative", True)):
        fs, table = purify([z3.And(*(sd + axioms + pos)) if (sd + axioms + pos) else z3.BoolVal(True), goal],
                           names=("ln_real", "exp_real", "R_exp5"))
        e.prove("%s:%s" % (label, nm),
                "%s, exact arithmetic, all real coefficients, knot.x>0, v,w>0, ln as a free real per point%s: %s" % (
                    label, " (exp_5_taylor abstracted to R with x^5 R(x) = e^x - sum_{j<5} x^j/j!)" if k == 4 else "", what),
                [fs[0]], fs[1], dom_name="real", functions=funcs, witness_terms=wt, role=role, replay=replay_for(use_indef), prefer=nice)


def run(rep, tier):
    e = E2(rep, tier)
    rep.explanation = ("integral()/indefinite() of Log<Poly0..8> and evaluate of the two log-integral forms executed symbolically from MIR; "
                       "ln v is a free real per evaluation point (uninterpreted), so 'F - G is constant' is a polynomial identity in "
                       "(v, ln v, w, ln w, p, knot) which z3 decides; counterexamples are replayed natively against a 60-digit "
                       "reference of the integral.")
    rep.bounds = {"degrees": "0..8 (all impls)", "outside": "accuracy of libm ln/exp; rounding bound of the construction (only exact-arithmetic identities here)"}
    rep.assumptions.append("C09: for the quartic form exp_5_taylor is replaced by the real function R it approximates (stub; C10 checks the code against R)")
    specs = [("indef", "LP%d" % k, k + 1, ()) for k in range(9)] + [("integ", "LP%d" % k, k + 3, (k + 1,)) for k in range(9)]
    specs += [("eval", "IL%d" % k, k + 3, (k + 2,)) for k in (0, 1, 3, 8)] + [("eval", "ILP4", 7, (6,))]
    if validate.validate(e, specs, seed=rep.seed, n_rand=4):
        for k in range(9):
            check_degree(e, k)
    e.finish()


def replay(path):
    import json
    from common import Report
    d = json.load(open(path))

    class _E:
        pass
    from engine import Native
    e = _E()
    e.native = Native()
    msgs = native_antiderivative_check(e, d["degree"], d["p"], d["kx"], d["ky"], d["a"], d["b"], d.get("indefinite", False))
    for m in msgs:
        print("violates: " + m)
    return 1 if msgs else 0
