"""C05 — the constrained spline never overshoots, is flat at data extrema, reproduces straight lines and coincides
with the exact Kruger spline (engine E2, whole function, every real t decided by nlsat)."""
import os
import sys
from fractions import Fraction

import z3

sys.path.insert(0, os.path.join(os.path.dirname(os.path.dirname(os.path.abspath(__file__))), "e2"))
import api
import splinelib as sl
import validate
from domains import FPDomain, RealDomain
from engine import E2, model_value, show
from interp import Unsupported, PathLimit, Struct
from props.c04 import (FUNCS, pre_increasing, prefer_nice, fr_eval, fr_deval, validate_spline, concrete_spline_check)

LEVEL = "proof"


def shape_check(xs, ys, out, t=None):
    """Concrete C05 statement on native output: monotone / bounded on every interval (exact rational analysis of the
    cubic's derivative: endpoints and vertex), zero slope at sign changes, straight line for collinear data."""
    n = len(xs)
    if isinstance(out, str):
        return ["constrained_spline: " + out]
    if len(out) != 5 * (n - 1) or any(v != v or abs(v) == float("inf") for v in out):
        return ["malformed output %r" % (out,)]
    segs = [out[5 * i + 1:5 * i + 5] for i in range(n - 1)]
    X = [Fraction(v) for v in xs]
    Y = [Fraction(v) for v in ys]
    slopes = [(Y[i + 1] - Y[i]) / (X[i + 1] - X[i]) for i in range(n - 1)]
    dxmin = min(X[i + 1] - X[i] for i in range(n - 1))
    cond = max(Fraction(1), max(abs(v) for v in X) / dxmin)
    smax = max([abs(s) for s in slopes] + [Fraction(1, 10 ** 300)])
    dtol = Fraction(1, 10 ** 7) * smax * cond ** 3
    msgs = []
    for i, c in enumerate(segs):
        ymag = max(abs(Y[i]), abs(Y[i + 1]), Fraction(1))
        vtol = Fraction(1, 10 ** 8) * (ymag + smax * (X[i + 1] - X[i])) * cond ** 3
        sign = 1 if Y[i + 1] >= Y[i] else -1
        pts = [X[i], X[i + 1]]
        b, c2, d3 = Fraction(c[1]), Fraction(c[2]), Fraction(c[3])
        if d3 != 0:
            v = -c2 / (3 * d3)
            if X[i] < v < X[i + 1]:
                pts.append(v)
        if t is not None and X[i] <= Fraction(t) <= X[i + 1]:
            pts.append(Fraction(t))
        for pnt in pts:
            der = fr_deval(c, pnt)
            if sign * der < -dtol and Y[i + 1] != Y[i]:
                msgs.append("segment %d is not monotone: p'(%s) = %s against data direction %+d" % (i, show(pnt), show(der), sign))
                break
        # extrema of p on the interval are at endpoints if monotone; check value bounds at all candidate points
        cand = list(pts)
        # roots of p' inside the interval would be interior extrema: bracket by sampling the exact quadratic at 64 points
        for j in range(1, 64):
            cand.append(X[i] + (X[i + 1] - X[i]) * j / 64)
        lo, hi = min(Y[i], Y[i + 1]), max(Y[i], Y[i + 1])
        for pnt in cand:
            v = fr_eval(c, pnt)
            if v < lo - vtol or v > hi + vtol:
                msgs.append("segment %d overshoots: p(%s) = %s outside [%s, %s]" % (i, show(pnt), show(v), show(lo), show(hi)))
                break
    for k in range(1, n - 1):
        if slopes[k - 1] * slopes[k] <= 0:
            der = fr_deval(segs[k], X[k])
            if abs(der) > dtol:
                msgs.append("slope at extremum knot %d is %s, not 0" % (k, show(der)))
    if all(s == slopes[0] for s in slopes):
        for i, c in enumerate(segs):
            for pnt in (X[i], (X[i] + X[i + 1]) / 2, X[i + 1]):
                want = Y[0] + slopes[0] * (pnt - X[0])
                if abs(fr_eval(c, pnt) - want) > Fraction(1, 10 ** 8) * (abs(want) + 1) * cond ** 3:
                    msgs.append("collinear data not reproduced on segment %d at %s" % (i, show(pnt)))
                    break
    return msgs


def make_replay(e, n, xs, ys, tvar=None):
    def replay(model, ob):
        xv = [float(model_value(model, x) or 0) for x in xs]
        yv = [float(model_value(model, y) or 0) for y in ys]
        tv = model_value(model, tvar) if tvar is not None else None
        flat = []
        for a, b in zip(xv, yv):
            flat += [a, b]
        path = e.write_replay(ob.name, {"kind": "E2-native-spline-shape", "requests": [["spline", "-", flat]],
                                        "t": None if tv is None else str(tv),
                                        "statement": "C05: monotone and bounded on every interval, zero slope at extrema, collinear -> line"})
        if not all(xv[i] < xv[i + 1] for i in range(n - 1)):
            return False, path, "model abscissae collapse in binary64"
        bad = []
        for prof in ("dev", "release"):
            o = e.native.run([("spline", "-", flat)], prof)[0]
            for m in shape_check(xv, yv, o, tv) + [m for m in concrete_spline_check(xv, yv, o) if "harmonic" in m or "end rule" in m]:
                bad.append("%s build, knots %r: %s" % (prof, list(zip(xv, yv)), m))
        if bad:
            return True, path, "; ".join(bad[:3])
        return False, path, "model does not violate the concrete statement natively"
    return replay


def kruger_oracle(xs, ys, decisions_zero):
    """The paper's formulas (eqs. 7a-c, 8, 9 and the a-d formulas) in exact arithmetic.
    decisions_zero[k-1] tells whether the slope at interior knot k is 0 (sign change) -- the caller ties that to the data."""
    n = len(xs)
    f = [None] * n
    for k in range(1, n - 1):
        if decisions_zero[k - 1]:
            f[k] = z3.RealVal(0)
        else:
            f[k] = 2 / ((xs[k + 1] - xs[k]) / (ys[k + 1] - ys[k]) + (xs[k] - xs[k - 1]) / (ys[k] - ys[k - 1]))
    f[0] = 3 * (ys[1] - ys[0]) / (2 * (xs[1] - xs[0])) - f[1] / 2
    f[n - 1] = 3 * (ys[n - 1] - ys[n - 2]) / (2 * (xs[n - 1] - xs[n - 2])) - f[n - 2] / 2
    out = []
    for i in range(1, n):
        dx = xs[i] - xs[i - 1]
        dy = ys[i] - ys[i - 1]
        f2a = -2 * (f[i] + 2 * f[i - 1]) / dx + 6 * dy / (dx * dx)
        f2b = 2 * (2 * f[i] + f[i - 1]) / dx - 6 * dy / (dx * dx)
        d = (f2b - f2a) / (6 * dx)
        c = (xs[i] * f2a - xs[i - 1] * f2b) / (2 * dx)
        b = (dy - c * (xs[i] * xs[i] - xs[i - 1] * xs[i - 1]) - d * (xs[i] ** 3 - xs[i - 1] ** 3)) / dx
        a = ys[i - 1] - b * xs[i - 1] - c * xs[i - 1] * xs[i - 1] - d * xs[i - 1] ** 3
        out.append([a, b, c, d])
    return out


def shape_obligations(e, n, tier, group=None):
    """group=(k, K): only the branch patterns with index % K == k (parallel parts)"""
    xs, ys = sl.rvars(n)
    pre = pre_increasing(xs)
    wt = {("x%d" % i): xs[i] for i in range(n)}
    wt.update({("y%d" % i): ys[i] for i in range(n)})
    try:
        dom = RealDomain(False)
        res = sl.explore(e, "constrained_spline", n, dom, pre=pre)
    except (Unsupported, PathLimit) as ex:
        e.not_encoded("spline[n=%d]" % n, "whole-function encoding of constrained_spline", ex, FUNCS)
        return
    t = z3.Real("t")
    nice = prefer_nice(xs, ys)
    import itertools
    seen = {}
    for pidx, (p, segs) in enumerate(res):
        if group is not None and pidx % group[1] != group[0]:
            continue
        if segs is None or len(segs) != n - 1:
            e.not_encoded("spline[n=%d,path#%d]" % (n, pidx), "shape obligations",
                          "unexpected path shape (panic=%r, decisions=%r)" % (p.panic, p.decisions), FUNCS)
            continue
        if p.nonzero:
            # the exact-arithmetic meaning of a path is only defined if it never divides by zero
            from props.c04 import make_replay as c04_replay
            e.prove_cases("spline[n=%d,path#%d]:divisors-nonzero" % (n, pidx),
                          "on this path no divisor of the construction is zero for strictly increasing abscissae (each divisor under the "
                          "path condition and the quotients defined before it)", pre + list(p.conds), sl.divisor_cases(p), dom_name="real",
                          functions=FUNCS, witness_terms=wt, role="spline-division-by-zero", replay=c04_replay(e, n, xs, ys), prefer=nice)
        base = pre + list(p.conds) + list(p.side)
        preds = [(ys[k] - ys[k - 1]) * (ys[k + 1] - ys[k]) <= 0 for k in range(1, n - 1)]
        # Which data cases ("adjacent secants differ in sign or one is zero" at each interior knot) this path serves is asked of
        # the solver, not read off the code's branch decisions (a refactor may branch differently); each feasible case becomes its
        # own family of obligations, with the property's expected slopes for that case.
        for combo in itertools.product((True, False), repeat=n - 2):
            case = [pr if z else z3.Not(pr) for pr, z in zip(preds, combo)]
            rc, _, _ = e.check(base + case, cap_ms=5000)
            if rc == z3.unsat:
                continue
            key = "".join("T" if z else "F" for z in combo)
            seen[key] = seen.get(key, 0) + 1
            tag = "spline[n=%d,path=%s%s]" % (n, key, "" if seen[key] == 1 else "#%d" % seen[key])
            case_obligations(e, n, tier, tag, base + case, list(combo), segs, xs, ys, wt, nice, t)


def case_obligations(e, n, tier, tag, assum, decisions, segs, xs, ys, wt, nice, t):
    """decisions[k-1]: in this case the secants at interior knot k differ in sign or one is zero (part of assum)"""
    if True:
        coef = [[c.t for c in cs] for (_, cs) in segs]
        for k in range(1, n - 1):
            dec = decisions[k - 1]
            if dec:
                e.prove("%s:flat@%d" % (tag, k), "whenever the secant slopes adjacent to interior knot %d differ in sign or one is zero, the "
                        "slope of both cubics at that knot is exactly 0" % k,
                        assum, z3.And(sl.pdev(coef[k - 1], xs[k]) == 0, sl.pdev(coef[k], xs[k]) == 0), dom_name="real",
                        functions=FUNCS, witness_terms=wt, role="spline-flat", replay=make_replay(e, n, xs, ys), prefer=nice)
        # (a) no overshoot / monotone for EVERY real t of the interval
        for i in range(n - 1):
            for sign, nm in ((1, "rising"), (-1, "falling")):
                wt2 = dict(wt)
                wt2["t"] = t
                e.prove("%s:shape[%d,%s]" % (tag, i, nm),
                        "for every real t in [x%d,x%d] with %s data (y%d %s y%d): the cubic is monotone (p'(t)%s0) and stays "
                        "between the two knot ordinates" % (i, i + 1, nm, i, "<=" if sign > 0 else ">=", i + 1,
                                                          ">=" if sign > 0 else "<="),
                        assum + [t >= xs[i], t <= xs[i + 1], sign * ys[i] <= sign * ys[i + 1]],
                        z3.And(sign * sl.pev(coef[i], t) >= sign * ys[i], sign * sl.pev(coef[i], t) <= sign * ys[i + 1],
                               sign * sl.pdev(coef[i], t) >= 0),
                        dom_name="real", functions=FUNCS, witness_terms=wt2, role="spline-overshoot",
                        replay=make_replay(e, n, xs, ys, t), prefer=nice + [t * 64 == z3.ToReal(z3.ToInt(t * 64))])
        # (d) collinear data reproduce the straight line, as polynomials (only branch patterns collinear data can take:
        #     all harmonic-mean branches for s != 0, all zero branches for s == 0)
        if len(set(decisions)) > 1:
            continue_collinear = False
        else:
            continue_collinear = True
        s = z3.Real("s")
        col = [ys[i + 1] - ys[i] == s * (xs[i + 1] - xs[i]) for i in range(n - 1)]
        goals = []
        for i in range(n - 1):
            goals += [coef[i][3] == 0, coef[i][2] == 0, coef[i][1] == s, coef[i][0] == ys[0] - s * xs[0]]
        if continue_collinear:
            rcc, _, _ = e.check(assum + col, cap_ms=5000)
            continue_collinear = rcc != z3.unsat  # a path that collinear data cannot take says nothing about them
        if continue_collinear:
            e.prove("%s:collinear" % tag, "collinear knots (common slope s) give every cubic the coefficients [y0-s*x0, s, 0, 0]",
                    assum + col, z3.And(*goals), dom_name="real", functions=FUNCS, witness_terms=wt, role="spline-collinear",
                    replay=make_replay(e, n, xs, ys), prefer=nice)
        # (e) coincides with the exact Kruger spline, coefficient by coefficient (n <= 4: at n = 5 one of the 16 coefficient
        #     identities of the pattern TFF does not finish in nlsat within 300 s; the shape, flatness, collinearity and divisor
        #     obligations are still decided at n = 5)
        if n > 4:
            return
        try:
            orc = kruger_oracle(xs, ys, decisions)
            goals = []
            for i in range(n - 1):
                for j in range(4):
                    goals.append(coef[i][j] == orc[i][j])
            # the oracle's own divisions are well-defined on this path (dy != 0 where it divides by dy)
            dyok = [ys[k + 1] - ys[k] != 0 for k in range(n - 1)
                    if (k >= 1 and not decisions[k - 1]) or (k + 1 <= n - 2 and not decisions[k])]
            # (posed as ONE conjunction: the identities help each other in nlsat; posed one by one, a single coefficient of the
            #  all-harmonic pattern does not finish)
            e.prove("%s:kruger" % tag,
                    "every coefficient of every cubic equals the one given by Kruger's formulas (7a-c, 8, 9, a-d) in exact arithmetic",
                    assum + dyok, z3.And(*goals), dom_name="real", functions=FUNCS, witness_terms=wt, role="spline-kruger",
                    replay=make_replay(e, n, xs, ys), prefer=nice)
        except Exception as ex:
            e.not_encoded("%s:kruger" % tag, "Kruger oracle", ex, FUNCS)


def fp_sign_branch(e):
    """bit-precise: with finite secant slopes of opposite sign, or one of them zero, f_dx takes the zero branch and returns 0."""
    funcs = ["f_dx"]
    try:
        dom = FPDomain()
        it = e.interp(dom)
        fn = e.program.find("f_dx")

        def mk(d):
            return [Struct("Knot", [d.sym("x%d" % i), d.sym("y%d" % i)]) for i in range(3)]
        paths = it.explore(fn, mk)
    except (Unsupported, PathLimit) as ex:
        # This obligation is a unit-level refinement tied to a helper named f_dx taking three knots.  When the helper is gone or
        # reshaped (a refactor may inline it) the statement it refines is still decided by the whole-function obligations above
        # (flat at extrema, branch <=> sign-change predicate, Kruger coefficients); record the skip, do not fail the check.
        e.rep.self_tests.setdefault("optional_obligations_skipped", []).append(
            "f_dx:fp-sign-branch (bit-precise sign test of the helper f_dx): %s" % str(ex)[:200])
        return
    F = z3.Float64()
    RNE = z3.RNE()
    xs = [z3.FP("x%d" % i, F) for i in range(3)]
    ys = [z3.FP("y%d" % i, F) for i in range(3)]
    s01_t = z3.fpDiv(RNE, z3.fpSub(RNE, ys[1], ys[0]), z3.fpSub(RNE, xs[1], xs[0]))
    s12_t = z3.fpDiv(RNE, z3.fpSub(RNE, ys[2], ys[1]), z3.fpSub(RNE, xs[2], xs[1]))
    S1, S2 = z3.FP("s01", F), z3.FP("s12", F)
    zero = z3.FPVal(0.0, F)
    goals = []
    ok_shape = True
    for p in paths:
        if p.panic is not None or len(p.conds) != 1:
            ok_shape = False
            continue
        cond = z3.substitute(p.conds[0], (s01_t, S1), (s12_t, S2))
        left = [v for v in z3.z3util.get_vars(cond) if str(v) not in ("s01", "s12")]
        if left:
            ok_shape = False
            continue
        opposite = z3.Or(z3.And(z3.fpLEQ(S1, zero), z3.fpGEQ(S2, zero)), z3.And(z3.fpGEQ(S1, zero), z3.fpLEQ(S2, zero)))
        if p.result.conc is not None and p.result.conc == 0.0:
            continue  # this path returns the constant 0
        # any other path must be unreachable when the slopes differ in sign or one is zero
        goals.append(z3.Not(z3.And(opposite, cond)))
    if not ok_shape or not goals:
        e.rep.self_tests.setdefault("optional_obligations_skipped", []).append(
            "f_dx:fp-sign-branch: f_dx does not have the expected single-branch shape over its two secant slopes")
        return
    fin = [z3.Not(z3.fpIsNaN(S1)), z3.Not(z3.fpIsInf(S1)), z3.Not(z3.fpIsNaN(S2)), z3.Not(z3.fpIsInf(S2))]
    e.prove("f_dx:fp-sign-branch",
            "bit-precise binary64, all finite secant slopes s01, s12 (as computed by the code's own (y1-y0)/(x1-x0)): if they differ in "
            "sign or one is zero, f_dx returns 0 on whichever branch it takes", fin, z3.And(*goals), dom_name="fp", functions=funcs,
            witness_terms={"s01": S1, "s12": S2}, role="spline-flat-fp")


def run_part(rep, tier, part):
    f = part.split(":")
    e = E2(rep, tier)
    shape_obligations(e, int(f[1]), tier, group=(int(f[2]), int(f[3])))
    e.finish()


def run(rep, tier):
    e = E2(rep, tier)
    ns = [3, 4]
    big = [] if tier == "quick" else [(5, 8)]  # n=5 needs more than the quick tier's 20 s per query for a few patterns
    parts = ["shape:%d:%d:%d" % (n, k, K) for (n, K) in big for k in reversed(range(K))]
    rep.explanation = ("Whole-function symbolic execution of constrained_spline from MIR per knot count; for every branch pattern z3's "
                       "nlsat decides, over all real knots with strictly increasing x AND every real t of each interval, monotonicity "
                       "and the no-overshoot bounds; branch taken == sign-change predicate; zero slope at extrema; collinear data; "
                       "coefficient-wise equality with Kruger's formulas; bit-precise FP twin of the sign branch.")
    rep.bounds = {"knots": ns + [n for (n, _) in big], "outside": "more knots; shape claims under rounding (not linear in the data, no posing found that "
                  "nlsat finishes): the claim is about the exact-arithmetic meaning of the code plus the FP sign branch"}
    if validate_spline(e, rep.seed):
        for n in ns:
            shape_obligations(e, n, tier)
        fp_sign_branch(e)
        import parallel
        parallel.run_parts(rep, tier, parts, mir_text=e.mir_text, sources=e.sources)
    e.finish()


def replay(path):
    import json
    from engine import Native
    d = json.load(open(path))
    nat = Native()
    bad = 0
    for (op, ty, vals) in d["requests"]:
        xs, ys = vals[0::2], vals[1::2]
        t = Fraction(d["t"]) if d.get("t") not in (None, "None") else None
        for prof in ("dev", "release"):
            o = nat.run([(op, ty, vals)], prof)[0]
            print("%s build: constrained_spline(%r) -> %r" % (prof, list(zip(xs, ys)), o))
            for m in shape_check(xs, ys, o, t) + concrete_spline_check(xs, ys, o):
                print("   violates: " + m)
                bad = 1
    return bad
