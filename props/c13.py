"""C13 — piecewise + and - are pointwise on the merged breakpoints (engine E1)."""
from e1 import HarnessSpec
from props.e1util import run_e1, replay_cmd

LEVEL = "model_checking"
FUNCS = ["<&Piecewise<T> as Add<&Piecewise<T>>>::add", "<&Piecewise<T> as Sub<&Piecewise<T>>>::sub"]


def specs(tier):
    sizes = [(1, 1), (1, 3), (2, 2), (3, 2)]
    if tier == "thorough":
        sizes += [(3, 3), (4, 2), (2, 4), (4, 4)]
    out = []
    for op in ("add", "sub"):
        for (n, m) in sizes:
            out.append(HarnessSpec(
                "c13::c13_%s_%d_%d" % (op, n, m),
                "for all non-NaN non-decreasing ends of f[%d] and g[%d] and every non-NaN x: &f %s &g has 1..%d pieces, non-decreasing "
                "non-NaN breakpoints each bit-identical to an operand breakpoint, and the piece it selects at x combines (with this "
                "operator) exactly the piece of f and the piece of g that direct evaluation selects at x" % (
                    n, m, "+" if op == "add" else "-", n + m - 1),
                [FUNCS[0] if op == "add" else FUNCS[1]], {"len_f": n, "len_g": m, "unwind": n + m + 2},
                timeout_s=400 if tier == "quick" else 2400, mem_gb=14, role="merge-" + op))
    return out


def run(rep, tier):
    rep.explanation = ("Bounded model checking of both merge loops with pieces that record which operand pieces were combined; oracle = the "
                       "C02 index rule applied to f, g and the result.")
    rep.bounds = {"(len f, len g)": "(1,1),(1,3),(2,2),(3,2) quick; up to (4,4) thorough", "outside": "longer operands",
                  "value_clause": "f(x)+-g(x) up to rounding follows from this selection result composed with C14 (coefficient-wise + and -)"}
    run_e1(rep, specs(tier))
    from props import ctrl_obl
    from engine import E2
    e = E2(rep, tier)
    sizes = [(4, 4), (5, 5), (6, 3), (2, 7), (1, 8)] if tier == "quick" else [(4, 4), (5, 5), (6, 3), (2, 7), (1, 8), (8, 3), (3, 8), (6, 4), (4, 6), (10, 2)]
    rep.bounds["(len f, len g)_mir"] = [list(x) for x in sizes]
    ctrl_obl.c13_obligations(e, [(2, 2)], real=False)
    e.finish()
    import parallel
    parts = ["mg:%d:%d:%d" % (n, m, sub) for (n, m) in sorted(sizes, key=lambda t: -(t[0] + t[1])) for sub in (0, 1)]
    parallel.run_parts(rep, tier, parts, mir_text=e.mir_text, sources=e.sources)


def run_part(rep, tier, part):
    from props import ctrl_obl
    from engine import E2
    _, n, m, sub = part.split(":")
    e = E2(rep, tier)
    ctrl_obl.c13_obligations(e, [(int(n), int(m))], real=True, ops=(sub == "1",))
    e.finish()


def replay(path):
    if path.endswith(".json"):
        from props.c02 import ctrl_replay
        return ctrl_replay(path)
    return replay_cmd(path)
