"""C19 — Arbitrary-generated piecewise functions are always well-formed (engine E1)."""
from e1 import HarnessSpec
from props.e1util import run_e1, replay_cmd

LEVEL = "model_checking"
FUNCS = ["<Piecewise<T> as Arbitrary>::arbitrary", "arbitrary::{closure#0..2}", "<Vec<f64> as Arbitrary>::arbitrary (dependency)",
         "Piecewise::evaluate", "PiecewiseEvaluator::evaluate", "Piecewise::evaluate_v"]

SHAPES_P0 = {0: [0, 1, 5], 1: [1, 5, 9, 10, 14, 18, 19], 2: [10, 14, 18, 19, 23, 27, 35, 36], 3: [19, 27, 28, 36, 44, 52, 53]}
SHAPES_P1 = {1: [10, 18, 26], 2: [19, 35, 51]}
QUICK_P0 = {0: [0, 5], 1: [1, 9, 14, 19], 2: [14, 19, 27, 36], 3: [28, 53]}
QUICK_P1 = {1: [18, 26], 2: [35]}


def specs(tier):
    p0 = QUICK_P0 if tier == "quick" else SHAPES_P0
    p1 = QUICK_P1 if tier == "quick" else SHAPES_P1
    out = [HarnessSpec("c19::c19_bool_low_bit", "bool::arbitrary depends only on the low bit of its byte and is false on empty input (makes the "
                       "concrete control bytes of the other harnesses lossless)", ["<bool as Arbitrary>::arbitrary (dependency)"], {"bytes": 1},
                       timeout_s=200, role="arbitrary-bool")]
    for (tname, shapes) in (("p0", p0),):
        for k, ls in shapes.items():
            for l in ls:
                out.append(HarnessSpec(
                    "c19::c19_%s_k%d_l%d" % (tname, k, l),
                    "every byte string of length %d whose list shape is 'at most %d breakpoints' (continue/stop bytes fixed, all %d payload "
                    "bytes symbolic: NaN, infinite, subnormal, zero, descending ends, input running out mid-element or mid-piece): "
                    "Piecewise<%s>::arbitrary returns Err or a function with >=1 segment, all ends normal and non-decreasing, never panics; "
                    "the result evaluates at any f64 x through evaluate, the stateful evaluator and evaluate_v without panic and (x non-NaN) "
                    "with bit-identical results" % (l, k, l - min(k + 1, (l + 8) // 9), "Poly0" if tname == "p0" else "Poly1"),
                    FUNCS, {"max_breakpoints": k, "bytes": l, "unwind": 10}, timeout_s=600 if tier == "quick" else 1800, mem_gb=14,
                    role="arbitrary-wellformed"))
    return out


def run(rep, tier):
    rep.explanation = ("Bounded model checking of the Arbitrary impl over symbolic payload bytes, one harness per (list shape, total length); "
                       "the shape enumeration covers every truncation point of the byte layout [continue?][8 bytes]...[stop][piece bytes].")
    rep.bounds = {"breakpoints": "0..3 at byte level (Kani), 1..5 (6 thorough) at the level of the impl's own logic (MIR)", "piece_types": "Poly0 (with Poly1 pieces CBMC does not finish within 600 s: the array Arbitrary impl of the dependency; the code under test is generic in T)", "outside": "more than 3 breakpoints; byte strings whose control bytes "
                  "differ are represented by their low bit (proved irrelevant otherwise by c19_bool_low_bit)"}
    run_e1(rep, specs(tier))
    # E2: the impl's own logic from its MIR for longer lists (decoders of the dependency replaced by their contract)
    import os, sys
    sys.path.insert(0, os.path.join(os.path.dirname(os.path.dirname(os.path.abspath(__file__))), "e2"))
    from engine import E2
    import parallel
    e = E2(rep, tier)
    ks = [(1, 1), (2, 1), (3, 1), (4, 1), (5, 0)] if tier == "quick" else [(1, 1), (2, 1), (3, 1), (4, 1), (5, 1), (5, 0), (6, 0)]
    rep.bounds["list_lengths_mir"] = [k for (k, _) in ks]
    rep.assumptions.append("E2 part: Vec<f64>::arbitrary may return ANY vector of the given length and T::arbitrary Ok(any piece) or Err "
                           "(the documented contract of the `arbitrary` crate); the byte-level decoding is covered by the Kani harnesses")
    e.finish()
    parallel.run_parts(rep, tier, ["logic:%d:%d" % (k, f) for (k, f) in ks], mir_text=e.mir_text, sources=e.sources)


def run_part(rep, tier, part):
    import os, sys
    sys.path.insert(0, os.path.join(os.path.dirname(os.path.dirname(os.path.abspath(__file__))), "e2"))
    from engine import E2
    from props import ctrl_obl
    _, k, f = part.split(":")
    e = E2(rep, tier)
    ctrl_obl.c19_obligations(e, [(int(k), f == "1")])
    e.finish()


def replay(path):
    if path.endswith(".json"):
        from props.c02 import ctrl_replay
        return ctrl_replay(path)
    return replay_cmd(path)
