"""C08 — differentiation yields the formal derivative, piece by piece (engine E2 kernels + E1 structure)."""
import os
import sys
from fractions import Fraction

import z3

sys.path.insert(0, os.path.join(os.path.dirname(os.path.dirname(os.path.abspath(__file__))), "e2"))
import api
import validate
from domains import FPDomain, RealDomain
from engine import E2, model_value, show
from interp import Unsupported, PathLimit
from props.c07 import replay_generic, finite, zabs, nice_fp, powers, F64, RNE, fpv

LEVEL = "proof"


def is_pow2(n):
    return n & (n - 1) == 0


def check_derivative(e, k, seg=False):
    ty = ("SP%d" if seg else "P%d") % k
    label = ("Segment<Poly%d>" if seg else "Poly%d") % k
    n = api.type_len(ty)
    off = 1 if seg else 0
    names = ["n%d" % i for i in range(n)]
    funcs = ["<Poly%d as HasDerivative>::derivative" % k] + (["<Segment<T> as HasDerivative>::derivative"] if seg else [])
    try:
        dom = FPDomain()
        res = api.run(e, dom, "deriv", ty, lambda d: [d.sym(nm) for nm in names])
        domr = RealDomain(True)
        resr = api.run(e, domr, "deriv", ty, lambda d: [d.sym(nm) for nm in names])
        dome = RealDomain(False)
        rese = api.run(e, dome, "deriv", ty, lambda d: [d.sym(nm) for nm in names])
    except (Unsupported, PathLimit) as ex:
        e.not_encoded("%s:derivative" % label, "derivative() coefficients", ex, funcs)
        return
    p, nums, _ = res[0]
    syms = [z3.FP(nm, F64) for nm in names]
    rsyms = [z3.Real(nm) for nm in names]
    cs, rcs = syms[off:], rsyms[off:]
    nout = max(k, 1)  # Poly0' = Poly0(0)

    def replay_for(terms):
        def replay(model, ob):
            vals = [model_value(model, t) for t in terms]
            vals = [0.0 if v is None else float(v) for v in vals]
            cv = vals[off:]

            def chk(rep):
                o = rep[0]
                if isinstance(o, str):
                    return [o]
                if len(o) != nout + off:
                    return ["deriv %s returned %d numbers, expected %d" % (ty, len(o), nout + off)]
                msgs = []
                if seg and o[0] != vals[0]:
                    msgs.append("end changed %r -> %r" % (vals[0], o[0]))
                co = o[off:]
                if k == 0:
                    if co[0] != 0.0:
                        msgs.append("derivative of a constant is %r" % co[0])
                    return msgs
                for i in range(k):
                    want = (i + 1) * Fraction(cv[i + 1])
                    tol = 0 if is_pow2(i + 1) else (Fraction(2, 2 ** 53) + Fraction(1, 2 ** 106)) * abs(want)
                    if co[i] != co[i] or abs(Fraction(co[i]) - want) > tol:
                        msgs.append("deriv %s %r: coefficient %d is %r, expected %d*c_%d = %s" % (ty, cv, i, co[i], i + 1, i + 1, show(want)))
                return msgs
            return replay_generic(e, ob, [["deriv", ty, vals]], chk,
                                  "derivative()[i] = (i+1)*c_(i+1) within one unit in the last place, exactly for power-of-two factors")
        return replay

    # FP: power-of-two factors exact (finite inputs, value comparison); Poly0 -> 0; end unchanged
    goals = []
    if len(nums) != nout + off:
        goals = [z3.BoolVal(False)]
    else:
        if seg:
            goals.append(z3.fpEQ(nums[0].t, syms[0]))
        if k == 0:
            goals.append(z3.fpEQ(nums[off].t, z3.FPVal(0.0, F64)))
        for i in range(k):
            if is_pow2(i + 1):
                goals.append(z3.fpEQ(nums[off + i].t, z3.fpMul(RNE, fpv(i + 1), cs[i + 1])))
    e.prove("%s:derivative-exact-lanes" % label,
            "%s::derivative(), all finite binary64 coefficients: coefficient i equals (i+1)*c_(i+1) exactly for the power-of-two "
            "factors 1,2,4,8%s%s" % (label, " (degree 0 gives the zero constant)" if k == 0 else "",
                                   "; the segment's end is unchanged" if seg else ""),
            [finite(s_) for s_ in syms], z3.And(*goals), dom_name="fp", functions=funcs,
            witness_terms={nm: s_ for nm, s_ in zip(names[:3], syms[:3])}, role="derivative-coefficients",
            replay=replay_for(syms), prefer=nice_fp(syms))
    if k == 0:
        return
    # rounding model: every lane within (2u+u^2) relative
    pr, numsr, _ = resr[0]
    dbounds = [z3.And(d >= -domr.u, d <= domr.u) for d in pr.deltas]
    tol = 2 * domr.u + domr.u * domr.u
    goals = []
    if len(numsr) != nout + off:
        goals = [z3.BoolVal(False)]
    else:
        for i in range(k):
            out = numsr[off + i].t
            want = (i + 1) * rcs[i + 1]
            goals.append(z3.And(out - want <= tol * zabs(want), want - out <= tol * zabs(want)))
    e.prove("%s:derivative-coefficients" % label,
            "%s::derivative(), rounding model, all real coefficients: coefficient i is within (2u+u^2)|(i+1)c_(i+1)| of "
            "(i+1)*c_(i+1) for every i<%d (one unit in the last place)" % (label, k),
            dbounds + list(pr.side), z3.And(*goals), dom_name="real-delta", functions=funcs,
            witness_terms={nm: s_ for nm, s_ in zip(names[:3], rsyms[:3])}, role="derivative-coefficients",
            replay=replay_for(rsyms))
    if seg:
        return
    # exact: value of the derivative polynomial is p'(x)
    pe, numse, _ = rese[0]
    x = z3.Real("x")
    try:
        ev = api.run(e, dome, "eval", "P%d" % (k - 1), lambda d: list(numse) + [d.sym("x")])
        val = ev[0][1][0].t
    except (Unsupported, PathLimit) as ex:
        e.not_encoded("%s:derivative-value" % label, "evaluate(derivative(p), x) == p'(x)", ex, funcs)
        return
    pw = powers(x, k)
    want = sum(((i + 1) * rcs[i + 1] * pw[i] for i in range(k)), z3.RealVal(0))
    e.prove("%s:derivative-value" % label,
            "exact arithmetic, all real c and x: evaluate(derivative(p), x) == sum_i (i+1) c_(i+1) x^i = p'(x) "
            "(the rounding bound of this evaluation is C01's)", list(ev[0][0].side), val == want, dom_name="real",
            functions=funcs + ["<Poly%d as Evaluate>::evaluate" % (k - 1)],
            witness_terms={"x": x, names[-1]: rsyms[-1]}, role="derivative-value", replay=replay_for(rsyms))


def run(rep, tier):
    e = E2(rep, tier)
    rep.explanation = ("derivative() of Poly0..8 and of Segment<T> executed symbolically from MIR: exactness of power-of-two "
                       "lanes in bit-precise FP, (2u+u^2) relative bound of every lane in the rounding model, exact-arithmetic "
                       "value identity; piecewise structure (length, order, ends) by Kani harnesses over a logging piece type.")
    rep.bounds = {"degrees": "0..8", "piecewise_segments": "1..4 (Kani)"}
    specs = [("deriv", "P%d" % k, k + 1, ()) for k in range(9)] + [("deriv", "SP3", 5, ())]
    if validate.validate(e, specs, seed=rep.seed, n_rand=4):
        for k in range(9):
            check_derivative(e, k)
        for k in (range(9) if tier == "thorough" else (0, 2, 8)):
            check_derivative(e, k, seg=True)
    from props.c15 import STRUCT_SIZES_QUICK, STRUCT_SIZES_THOROUGH
    from props.struct_obl import structural_obligations
    structural_obligations(e, ["deriv"], STRUCT_SIZES_QUICK if tier == "quick" else STRUCT_SIZES_THOROUGH, "pw-derivative-structure",
                           segment_level_ops=("deriv",))
    rep.bounds["piecewise_segments"] = "1..4 (Kani); MIR structure encoding %s (thorough to 1000)" % STRUCT_SIZES_QUICK
    e.finish()
    e1_part(rep, tier)


def e1_part(rep, tier):
    try:
        from props.c15 import structure_specs
    except Exception:
        return
    from props.e1util import run_e1
    run_e1(rep, structure_specs("derivative", tier))


def replay(path):
    if path.endswith(".rs"):
        from props.e1util import replay_cmd
        return replay_cmd(path)
    import json
    if json.load(open(path)).get("kind") == "E2-native-structural":
        from props.struct_obl import replay_file
        return replay_file(path)
    from props.c07 import replay as r7
    return r7(path)
