"""Obligations over the structure-only encodings of e2/structural.py (used by C08, C11, C15)."""
import struct as _struct

import z3

import structural
from engine import model_value

OPNAME = {"deriv": "derivative()", "mul": "* s", "mulassign": "*= s", "neg": "unary -", "translate": "translate(v)",
          "integ": "integral(k0)", "indef": "indefinite()", "iter": "Segment::integral_iter (by value)",
          "iterref": "Segment::integral_iter_ref (by reference)"}
NATIVE = {"deriv": "pwderiv", "mul": "pwmul", "mulassign": "pwmulassign", "neg": "pwneg", "translate": "pwtranslate",
          "iter": "pwintiter", "iterref": "pwintiterref", "integ": "pwinteg", "indef": "pwindef"}
PIECE = {"deriv": ("deriv", "P1"), "mul": ("mul", "P1"), "mulassign": ("mul", "P1"), "neg": ("neg", "P1"),
         "translate": ("translate", "P1")}


def same_bits(a, b):
    return len(a) == len(b) and all(_struct.pack("<d", x) == _struct.pack("<d", y) for x, y in zip(a, b))


def native_expected(e, op, n, segs, extra, prof):
    """the property's statement computed with the real PIECE-level operations of the crate (native), piece by piece"""
    out = []
    if op in PIECE:
        pop, pty = PIECE[op]
        for (en, c0, c1) in segs:
            r = e.native.run([(pop, pty, [c0, c1] + ([extra[0]] if op in ("mul", "mulassign", "translate") else []))], prof)[0]
            if isinstance(r, str):
                return None
            out += [en] + list(r)
        return out
    # integrals: thread the knot with the real Segment-level integral and evaluate
    kx, ky = (extra + [0.0, 0.0])[:2]
    for i, (en, c0, c1) in enumerate(segs):
        if op == "indef" and i == 0:
            r = e.native.run([("indef", "SP1", [en, c0, c1])], prof)[0]
        else:
            r = e.native.run([("integ", "SP1", [en, c0, c1, kx, ky])], prof)[0]
        if isinstance(r, str):
            return None
        out += list(r)
        v = e.native.run([("eval", "P2", list(r[1:]) + [r[0]])], prof)[0]
        if isinstance(v, str):
            return None
        kx, ky = r[0], v[0]
    return out


def make_replay(e, op, n, syms, segment_level=False):
    def replay(model, ob):
        def val(t, default):
            v = model_value(model, t)
            return default if v is None or v != v else float(v)
        # Several concrete realisations: the solver's breakpoints with distinct generic pieces, and fixed generic data.  The piece
        # operations are uninterpreted in the query, so the model's piece values carry no meaning beyond being distinct.
        ends_m = [val(t, float(i)) for i, t in enumerate(syms["ends"])]
        cands = []
        cands.append(([(ends_m[i], 1.5 + i, -0.75 + 0.5 * i) for i in range(n)], val(syms["s"], 3.0), val(syms["kx"], 0.5), val(syms["ky"], 2.0)))
        cands.append(([(float(i + 1), 2.0 + i, 1.0 + 0.25 * i) for i in range(n)], -2.5, 0.5, 2.0))
        cands.append(([(float(i + 1) if i < n - 1 else float("inf"), 1.0 + i, 3.0 - i) for i in range(n)], 1e-17, 0.25, -1.0))
        cands.append(([(float("-inf") if i == 0 else float(i), 0.5 * (i + 1), 1.0 + i) for i in range(n)], 0.0, -1.0, 4.0))
        # tiny pieces with tiny / special scalars: shortcuts keyed on the magnitude or an exact value of the scalar become visible
        for sc in (1e-17, -1e-19, 5e-324, 1.0, -1.0, 2.220446049250313e-16):
            cands.append(([(float(i), 0.0 if i % 2 == 0 else 1e-20, 1e-20 * (i + 1)) for i in range(n)], sc, 1e-20, 1e-20))
        path = None
        for (segs, s, kx, ky) in cands:
            extra = [s] if op in ("mul", "mulassign", "translate") else ([kx, ky] if op in ("integ", "iter", "iterref") else [])
            flat = [x for sg in segs for x in sg]
            req = (NATIVE[op], ("P1x%d" % n) if op in ("integ", "indef") else str(n), flat + extra)
            if segment_level:
                req = ({"deriv": "deriv", "mul": "mul", "mulassign": "mulassign", "translate": "translate"}[op], "SP1", flat + extra)
            p = e.write_replay(ob.name, {"kind": "E2-native-structural", "op": op, "requests": [list(req)],
                                         "statement": "the piecewise operation applies the piece-level operation to every piece in order and keeps "
                                                      "every breakpoint (for integrals: threads the knot (end, F(end)))"})
            path = path or p
            bad = []
            if op in ("integ", "indef", "iter", "iterref") and not segment_level:
                # C11's statement is about values, not about one particular construction: same breakpoints, through k0,
                # continuous at interior breakpoints, every piece an antiderivative (tolerances as in props/c11.py); plus,
                # for the two iterators, identical pieces from the by-value and the by-reference form.
                from props.c11 import native_pw_check
                finite = [sg for sg in segs if abs(sg[0]) != float("inf")]
                if len(finite) == len(segs) and n >= 1:
                    inc = all(segs[i][0] <= segs[i + 1][0] for i in range(n - 1))
                    if inc:
                        msgs = native_pw_check(e, "P", 1, n, [(sg[0], [sg[1], sg[2]]) for sg in segs], kx, ky, indefinite=(op == "indef"))
                        if op in ("iter", "iterref"):
                            for prof in ("dev", "release"):
                                a_ = e.native.run([("pwintiter", str(n), flat + extra)], prof)[0]
                                b_ = e.native.run([("pwintiterref", str(n), flat + extra)], prof)[0]
                                c_ = e.native.run([("pwinteg", "P1x%d" % n, flat + extra)], prof)[0]
                                if isinstance(a_, str) or isinstance(b_, str) or isinstance(c_, str) or not same_bits(a_, b_) or not same_bits(b_, c_):
                                    msgs.append("%s build: integral_iter %r, integral_iter_ref %r and Piecewise::integral %r differ on %r" % (
                                        prof, a_ if isinstance(a_, str) else a_[:8], b_ if isinstance(b_, str) else b_[:8],
                                        c_ if isinstance(c_, str) else c_[:8], segs[:3]))
                        if msgs:
                            return True, p, "; ".join(msgs[:2])
                continue
            for prof in ("dev", "release"):
                got = e.native.run([req], prof)[0]
                want = native_expected(e, op, n, segs, extra, prof)
                if want is None:
                    return False, path, "native oracle has no piece-level entry for %s" % op
                if isinstance(got, str):
                    bad.append("%s build: %s on %d segments %r: %s" % (prof, OPNAME[op], n, segs[:3], got))
                elif not same_bits(got, want):
                    bad.append("%s build: %s on %d segments %r gives %r, piece-by-piece statement gives %r" % (
                        prof, OPNAME[op], n, segs[:4], got[:12], want[:12]))
            if bad:
                return True, p, "; ".join(bad[:2])
        return False, path, "model does not reproduce natively"
    return replay


def structural_obligations(e, ops, sizes, role, segment_level_ops=()):
    from interp import PathLimit
    for op in ops:
        exploded = None
        for n in sizes:
            if op == "indef" and n == 0:
                continue
            name = "structure:%s[n=%d]" % (op, n)
            what = ("from the MIR, %d symbolic segments, piece-level operations uninterpreted: Piecewise %s applies the piece-level "
                    "operation to every piece in order with the right arguments%s, keeps the number of pieces, their order and every "
                    "breakpoint" % (n, OPNAME[op], " (running knot (end_i, F_i(end_i)))" if op in ("integ", "indef", "iter", "iterref") else ""))
            if exploded is not None:
                # the number of paths grows with the number of segments: larger sizes are not attempted once one size hit the limit
                e.not_encoded(name, what, "not attempted: the encoding at %d segments already exceeded its path/time limit (%s)" % exploded)
                continue
            try:
                paths, exp, syms, stubs = structural.run(e, op, n)
            except PathLimit as ex:
                exploded = (n, ex)
                e.not_encoded(name, what, "PathLimit: %s" % ex)
                continue
            except Exception as ex:
                e.not_encoded(name, what, "%s: %s" % (type(ex).__name__, ex))
                continue
            goals = []
            for p in paths:
                if p.panic is not None or p.result is None:
                    goals.append(z3.Not(p.cond()))
                    continue
                nums, cnt = p.result
                if cnt != n or len(nums) != len(exp):
                    goals.append(z3.Not(p.cond()))
                    continue
                goals.append(z3.Implies(p.cond(), z3.And([a.t == b for a, b in zip(nums, exp)]) if exp else z3.BoolVal(True)))
            fns = sorted(f for f in e.rep.functions if "piecewise" in f)[:10]
            e.prove(name, what, [], z3.And(goals) if goals else z3.BoolVal(False), dom_name="fp-uf", functions=fns,
                    witness_terms={"e0": syms["ends"][0]} if n else {"s": syms["s"]}, role=role, replay=make_replay(e, op, n, syms),
                    extra_bounds={"segments": n, "paths": len(paths), "stubs": stubs})
    for op in segment_level_ops:
        name = "structure:Segment.%s" % op
        what = ("from the MIR, one symbolic segment: Segment %s applies the piece-level operation to its piece and keeps its end" % OPNAME[op])
        try:
            paths, exp, syms, stubs = structural.run(e, op, 1, segment_level=True)
        except Exception as ex:
            e.not_encoded(name, what, "%s: %s" % (type(ex).__name__, ex))
            continue
        goals = []
        for p in paths:
            if p.panic is not None or p.result is None or len(p.result[0]) != len(exp):
                goals.append(z3.Not(p.cond()))
                continue
            goals.append(z3.Implies(p.cond(), z3.And([a.t == b for a, b in zip(p.result[0], exp)])))
        e.prove(name, what, [], z3.And(goals), dom_name="fp-uf", functions=[], witness_terms={"e0": syms["ends"][0]}, role=role,
                replay=make_replay(e, op, 1, syms, segment_level=True), extra_bounds={"paths": len(paths), "stubs": stubs})


def replay_file(path):
    """./check Cxx --replay <file>: re-run the recorded request natively and re-evaluate the statement"""
    import json
    from engine import Native
    d = json.load(open(path))

    class _E:
        native = Native()

        @staticmethod
        def write_replay(name, payload):
            return path
    e = _E()
    op = d["op"]
    (nop, ty, nums) = d["requests"][0]
    segment_level = ty == "SP1"
    n = 1 if segment_level else int(str(ty).split("x")[-1])
    segs = [tuple(nums[3 * i:3 * i + 3]) for i in range(n)]
    extra = list(nums[3 * n:])
    bad = 0
    if op in ("integ", "indef", "iter", "iterref") and not segment_level:
        from props.c11 import native_pw_check
        kx, ky = (extra + [0.0, 0.0])[:2]
        msgs = native_pw_check(e, "P", 1, n, [(sg[0], [sg[1], sg[2]]) for sg in segs], kx, ky, indefinite=(op == "indef"))
        if op in ("iter", "iterref"):
            for prof in ("dev", "release"):
                a_ = e.native.run([("pwintiter", str(n), list(nums))], prof)[0]
                b_ = e.native.run([("pwintiterref", str(n), list(nums))], prof)[0]
                if isinstance(a_, str) or isinstance(b_, str) or not same_bits(a_, b_):
                    msgs.append("%s build: integral_iter %r vs integral_iter_ref %r" % (prof, a_, b_))
        for m in msgs:
            print(m)
        return 1 if msgs else 0
    for prof in ("dev", "release"):
        got = e.native.run([(nop, ty, list(nums))], prof)[0]
        want = native_expected(e, op, n, segs, extra, prof)
        print("%s build: %s %s %r -> %r; piece-by-piece statement: %r" % (prof, nop, ty, nums, got, want))
        if isinstance(got, str) or want is None or not same_bits(got, want):
            bad = 1
    return bad
