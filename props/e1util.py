"""Helpers shared by property modules that use engine E1 (Kani)."""
import os
import e1
from common import Violation, log

E1_TRUSTED = ["Kani 0.68.0 translation of the compiled crate (rustc MIR -> goto-program)",
              "CBMC 6.11.0 + CaDiCaL (bit-precise, unwinding assertions on)",
              "harness-local probe piece types and spec functions in /verif/e1/src"]
E1_ASSUME = ["container sizes are concrete per harness (stated in bounds); sizes beyond them are outside the claim",
             "failed checks of CBMC's NaN/feraiseexcept float instrumentation are not Rust semantics and are ignored (counted in evidence)"]


def run_e1(rep, specs, features=(), hook=False):
    """Run harness specs, add obligations to the report, replay failures natively."""
    obs = e1.run_specs(specs, features=features, hook=hook)
    by_name = {s.name: s for s in specs}
    for ob in obs:
        rep.add(ob)
    for ob in obs:
        if ob.status != "violated":
            continue
        spec = by_name[ob.name]
        # one native replay per role is enough to report; others are listed in evidence
        if any(v.key == spec.role for v in rep.violations):
            continue
        log("[e1] replaying counterexample of %s natively ..." % ob.name)
        try:
            ok, path, desc = e1.replay(rep.prop, spec, features=features, hook=hook)
        except Exception as ex:  # a failing replay must never crash the check: the obligation stays unreplayed (exit 2)
            ok, path, desc = False, None, "native replay could not be run: %r" % (ex,)
        ob.detail = (ob.detail or "") + " | replay: " + desc
        if ok:
            rep.violations.append(Violation(rep.prop, ob, path,
                                            "%s: %s (%s)" % (spec.role, ob.detail, desc), spec.role))
        else:
            rep.unreplayed.append((ob, desc))
    for t in E1_TRUSTED:
        if t not in rep.trusted_base:
            rep.trusted_base.append(t)
    for t in E1_ASSUME:
        if t not in rep.assumptions:
            rep.assumptions.append(t)
    return obs


def replay_cmd(path, features=(), hook=False):
    return e1.replay_file_cmd(None, path, features=features, hook=hook)
