"""C16 — evaluation never panics on well-formed input and NaN queries are harmless (engine E1 + E2 path enumeration)."""
import os
import sys

sys.path.insert(0, os.path.join(os.path.dirname(os.path.dirname(os.path.abspath(__file__))), "e2"))
from e1 import HarnessSpec
from props.e1util import run_e1, replay_cmd
from props.c03 import hist_spec

LEVEL = "model_checking"


def linear_structure_specs(tier):
    ns = [2, 3] if tier == "quick" else [2, 3, 4]
    return [HarnessSpec("c16::c16_linear_n%d" % n,
                        "compiled code, all finite f64 knots (%d): linear() returns %d segments without panic, every end equals the running "
                        "maximum of the abscissae and ends are non-decreasing" % (n, n - 1), ["linear", "incr_linear", "linear::segment"],
                        {"knots": n, "unwind": n + 2}, timeout_s=400 if tier == "quick" else 1200, role="linear-structure") for n in ns]


def specs(tier):
    out = []
    sizes = [(1, 3), (2, 3), (3, 3)] if tier == "quick" else [(1, 3), (2, 3), (3, 3), (4, 4)]
    out += [hist_spec(n, q, nan=True, timeout=400 if tier == "quick" else 1800) for (n, q) in sizes]
    for n in ([1, 2, 3]):
        out.append(HarnessSpec("c16::c16_any_f64_n%d" % n,
                               "for all non-NaN non-decreasing ends[%d] and ANY two f64 arguments (NaN, +-inf included): Piecewise::evaluate, "
                               "PiecewiseEvaluator::evaluate (twice) and evaluate_v return without panic and evaluate_v yields one output per "
                               "input" % n, ["Piecewise::evaluate", "PiecewiseEvaluator::evaluate", "Piecewise::evaluate_v"],
                               {"segments": n, "unwind": n + 3}, timeout_s=400, role="any-f64-accepted"))
    for nm, what in (("reject_linear_one_knot", "linear() with one knot panics (documented rejection)"),
                     ("reject_spline_two_knots", "constrained_spline() with two knots panics (documented rejection)"),
                     ("reject_empty_evaluate", "evaluating an empty piecewise function panics (documented rejection)"),
                     ("reject_empty_evaluator", "PiecewiseEvaluator::new on no segments panics (documented rejection)"),
                     ("reject_empty_evaluate_v", "evaluate_v on an empty piecewise function panics (documented rejection)"),
                     ("reject_nan_breakpoint_in_add", "a NaN breakpoint in + panics (documented rejection)")):
        out.append(HarnessSpec("c16::c16_" + nm, what + " -- reachability witness that the preconditions of the no-panic claims are not vacuous",
                               [nm], {}, timeout_s=300, role="documented-rejection", expect_panic=True))
    for (n, m) in ([(1, 1), (2, 2)] if tier == "quick" else [(1, 1), (2, 2), (3, 2)]):
        out.append(HarnessSpec("c16::c16_ops_%d_%d" % (n, m),
                               "for all well-formed operands (%d and %d segments, non-NaN non-decreasing ends), every scalar and knot (any f64): "
                               "*, *=, unary -, translate, derivative, integral, indefinite, &f+&g and &f-&g return without panic, bounds or "
                               "overflow failure (generic code over logging pieces)" % (n, m),
                               ["Piecewise ops: Mul, MulAssign, Neg, Translate, HasDerivative, HasIntegral, Add, Sub"],
                               {"len_f": n, "len_g": m, "unwind": n + m + 3}, timeout_s=600 if tier == "quick" else 1800, mem_gb=14,
                               role="ops-no-panic"))
    out += linear_structure_specs(tier)
    return out


def e2_part(rep, tier):
    """Every path of the whole-function encodings and every numeric kernel returns without reaching a panic."""
    import api
    import splinelib as sl
    from domains import FPDomain
    from engine import E2
    from interp import Unsupported, PathLimit
    from common import Obligation
    e = E2(rep, tier)
    for fname, ns in (("linear", [2, 3, 4]), ("constrained_spline", [3, 4, 5] if tier == "quick" else [3, 4, 5, 6])):
        for n in ns:
            try:
                res = sl.explore(e, fname, n, FPDomain())
            except (Unsupported, PathLimit) as ex:
                e.not_encoded("%s[n=%d]:no-panic" % (fname, n), "no path panics", ex, [fname])
                continue
            bad = [p for (p, segs) in res if segs is None]
            rep.add(Obligation("%s[n=%d]:no-panic-paths" % (fname, n), "E2-paths",
                               "symbolic execution of %s on %d knots over all binary64 inputs: all %d branch patterns return (no assert, "
                               "unwrap, index or slice failure is reachable in the glue for this size)" % (fname, n, len(res)),
                               "discharged" if not bad else "violated", 0.0, functions=[fname],
                               detail=None if not bad else "panicking path: %s" % bad[0].panic,
                               witness={"paths": len(res)}, role="constructor-panic"))
    ops = [("eval", "P8"), ("eval", "PN3"), ("eval", "LP4"), ("eval", "IL3"), ("eval", "ILP4"), ("deriv", "P8"), ("indef", "P7"),
           ("integ", "P7"), ("indef", "LP4"), ("integ", "LP8"), ("mul", "ILP4"), ("add", "IL8"), ("translate", "PN0")]
    n_ok = 0
    for (op, ty) in ops:
        try:
            n = api.type_len(ty) + (1 if op in ("eval", "mul", "translate") else 0) + (2 if op == "integ" else 0)
            if op == "add":
                n = 2 * api.type_len(ty)
            dom = FPDomain()
            res = api.run(e, dom, op, ty, lambda d, n=n: [d.sym("i%d" % i) for i in range(n)], merge=False)
            if any(p.panic is not None for (p, _, _) in res):
                rep.add(Obligation("%s:%s:no-panic" % (op, ty), "E2-paths", "no panic path", "violated", 0.0,
                                   detail="panic: %s" % [p.panic for (p, _, _) in res if p.panic][0], role="kernel-panic"))
            else:
                n_ok += 1
        except (Unsupported, PathLimit) as ex:
            e.not_encoded("%s:%s:no-panic" % (op, ty), "no panic path", ex)
    rep.add(Obligation("kernels:no-panic-paths", "E2-paths",
                       "symbolic execution of %d representative numeric kernels (evaluate/derivative/indefinite/integral/operators incl. all "
                       "array index asserts of the MIR) over all binary64 inputs: no path reaches a panic" % n_ok, "discharged", 0.0,
                       witness={"kernels": n_ok}, role="kernel-panic"))
    # NaN-containing histories from the MIR (bit-precise FP kit: NaN is representable)
    from props import ctrl_obl
    ctrl_obl.evaluator_obligations(e, [(2, 3), (3, 3)] if tier == "quick" else [(2, 3), (3, 3), (4, 3), (3, 4)], allow_nan=True)
    e.finish()


def run(rep, tier):
    rep.explanation = ("Kani: NaN-containing query histories stay bit-identical to direct evaluation on their non-NaN queries; evaluation "
                       "accepts any f64; public operations on well-formed operands do not panic (Kani's panic, bounds, overflow and "
                       "unwinding checks), and each documented rejection is reachable. E2: every path of linear()/constrained_spline() "
                       "and of the numeric kernels returns without reaching an assert/unwrap/index failure.")
    rep.bounds = {"histories": "(segments, queries) up to (3,3) quick / (4,4) thorough", "operands": "<= 3 + 2 segments",
                  "knots": "linear 2..4, constrained_spline 3..5(6)",
                  "outside": "constrained_spline on the compiled code under Kani (CBMC's float instrumentation does not finish within 400 s; "
                  "covered by the MIR path enumeration instead); larger sizes"}
    run_e1(rep, specs(tier))
    e2_part(rep, tier)


def replay(path):
    if path.endswith(".json"):
        from props.c02 import ctrl_replay
        return ctrl_replay(path)
    return replay_cmd(path)
