"""C16 — no panics on well-formed input; NaN queries are harmless (engine E1)."""
from e1 import HarnessSpec
from props.e1util import run_e1, replay_cmd
from props.c03 import hist_spec

LEVEL = "model_checking"


def specs(tier):
    if tier == "quick":
        sizes = [(1, 3), (2, 3), (3, 3)]
    else:
        sizes = [(1, 3), (2, 3), (3, 3), (4, 4)]
    return [hist_spec(n, q, nan=True, timeout=300 if tier == "quick" else 1800) for (n, q) in sizes]


def run(rep, tier):
    rep.explanation = "Bounded model checking of NaN-containing query histories and panic-freedom harnesses."
    run_e1(rep, specs(tier))


def replay(path):
    return replay_cmd(path)
