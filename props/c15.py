"""C15 — scalar operations on segments and piecewise functions preserve breakpoints and act per piece (engine E1)."""
import os
import sys

sys.path.insert(0, os.path.join(os.path.dirname(os.path.dirname(os.path.abspath(__file__))), "e2"))
from e1 import HarnessSpec
from props.e1util import run_e1, replay_cmd

STRUCT_SIZES_QUICK = [0, 1, 2, 3, 4, 5, 6, 7, 8, 9, 16, 17, 31, 32, 33, 64, 65, 128, 257]
STRUCT_SIZES_THOROUGH = [0, 1, 2, 3, 4, 5, 6, 7, 8, 9, 16, 17, 31, 32, 33, 64, 65, 128, 257, 512, 1000]

LEVEL = "model_checking"

OPS = {"mul": "Piecewise * f64", "mulassign": "Piecewise *= f64", "neg": "-Piecewise", "translate": "Piecewise::translate",
       "derivative": "Piecewise::derivative"}


def structure_specs(op, tier):
    ns = [1, 2, 3] if tier == "quick" else [1, 2, 3, 4]
    out = []
    for n in ns:
        out.append(HarnessSpec(
            "c15::pw_%s_n%d" % (op, n),
            "for all f64 ends[%d] (NaN included), all piece identities/histories and every f64 scalar: %s keeps the number of pieces, their "
            "order and every breakpoint bit-identical, and piece i is the operation applied to piece i alone, exactly once, with that scalar"
            % (n, OPS[op]), [OPS[op]], {"segments": n, "unwind": n + 2}, timeout_s=300 if tier == "quick" else 900, role="pw-" + op))
    return out


def seg_specs():
    out = []
    for nm, what in (("seg_mul", "Segment * f64"), ("seg_mulassign", "Segment *= f64"), ("seg_mulassign_ref", "(&mut Segment) *= f64"),
                     ("seg_translate", "Segment::translate"), ("seg_derivative", "Segment::derivative")):
        out.append(HarnessSpec("c15::" + nm, "for every f64 end, piece and scalar: %s applies the operation to the piece once and keeps `end` "
                               "bit-identical; Segment::evaluate delegates to the piece" % what, [what, "<Segment<T> as Evaluate>::evaluate"],
                               {"unwind": 3}, timeout_s=300, role="seg-op"))
    return out


def specs(tier):
    out = []
    for op in ("mul", "mulassign", "neg", "translate"):
        out += structure_specs(op, tier)
    out += [s for s in seg_specs() if "derivative" not in s.name]
    return out


def run(rep, tier):
    rep.explanation = ("Bounded model checking of every per-piece operator of Segment<T> and Piecewise<T>, monomorphised over a piece type that "
                       "logs (operation, scalar bits) so that 'applied exactly as to that function alone' is a bit-for-bit statement; the "
                       "pointwise value statements then follow from C14.")
    rep.explanation += ("  In addition the same operators are executed symbolically from the MIR on up to 257 (1000) symbolic segments with "
                        "the piece-level operation uninterpreted (e2/structural.py): every piece gets the operation once, in order, with the "
                        "given scalar, and every breakpoint is kept; value-dependent shortcuts show up as extra paths.")
    rep.bounds = {"segments": "Kani 1..3 quick, 1..4 thorough; MIR structure encoding %s (thorough to 1000)" % STRUCT_SIZES_QUICK,
                  "piece_type": "OpLog (harness-local) under Kani, Poly0 with uninterpreted piece operations from the MIR; the generic code is "
                                "the same for every T"}
    run_e1(rep, specs(tier))
    from engine import E2
    from props.struct_obl import structural_obligations
    e = E2(rep, tier)
    structural_obligations(e, ["mul", "mulassign", "neg", "translate"], STRUCT_SIZES_QUICK if tier == "quick" else STRUCT_SIZES_THOROUGH,
                           "pw-structure", segment_level_ops=("mul", "mulassign", "translate"))
    e.finish()


def replay(path):
    if path.endswith(".json"):
        from props.struct_obl import replay_file
        return replay_file(path)
    return replay_cmd(path)
