"""E2 obligations for the control-code properties (C02, C03/C16, C12, C13) at sizes beyond Kani's reach.
See /verif/e2/ctrl.py for the encodings."""
import os
import sys

import z3

sys.path.insert(0, os.path.join(os.path.dirname(os.path.dirname(os.path.abspath(__file__))), "e2"))
import api
import ctrl
from domains import FPDomain
from engine import E2, model_value, show
from interp import Unsupported, PathLimit, Struct, Tuple

REAL_NOTE = "order-isomorphic real embedding of non-NaN binary64 values; the code only compares them"
FUNCS_EVAL = ["<Piecewise<T> as Evaluate>::evaluate", "Piecewise::evaluate::{closure#0}", "<Segment<T> as Evaluate>::evaluate"]


def prove_paths(e, label, what, assum, cases, real, **kw):
    """real kit: one small linear-real query per path; fp kit: one conjunction (z3 shares the bit-blasting work)."""
    if real:
        return e.prove_cases(label, what, assum, cases, **kw)
    goal = z3.And(*[z3.Implies(c, g) for (c, g) in cases]) if cases else z3.BoolVal(True)
    kw.pop("prefer", None)
    return e.prove(label, what, assum, goal, **kw)


def mv(model, t):
    v = model_value(model, t)
    if v is None or v != v:
        return 0.0
    return float(v)


def py_spec_index(ends, x):
    for i, en in enumerate(ends):
        if en > x:
            return i
    return len(ends) - 1


def same(a, b):
    return z3.Or(a == b, z3.And(z3.fpIsNaN(a), z3.fpIsNaN(b)))


def fmax_chain(xs, k):
    """running maximum of x_0..x_k (non-NaN inputs)"""
    m = xs[0]
    for i in range(1, k + 1):
        m = z3.If(z3.fpGT(xs[i], m), xs[i], m)
    return m


# ---------------------------------------------------------------------------------------------------- C02
def c02_obligations(e, sizes, real=True):
    for n in sizes:
        label = "evaluate%s[n=%d]" % ("" if real else "-fp", n)
        try:
            assum, res, spec, mp, info = ctrl.direct_evaluate(e, n, real=real)
        except (Unsupported, PathLimit) as ex:
            e.not_encoded(label, "Piecewise::evaluate selects the half-open segment", ex, FUNCS_EVAL)
            continue
        ends, pieces, x = info["ends"], info["pieces"], info["x"]

        def replay(model, ob, n=n, ends=ends, pieces=pieces, x=x):
            ev = [mv(model, t) for t in ends]
            pv = [float(i + 1) for i in range(n)]  # distinct piece values
            xv = mv(model, x)
            flat = []
            for a, b in zip(ev, pv):
                flat += [a, b]
            path = e.write_replay(ob.name, {"kind": "E2-native-pweval", "request": ["pweval", str(n), flat + [xv]],
                                            "statement": "evaluate(x) is the value of the first piece whose end > x, else of the last"})
            bad = []
            for prof in ("dev", "release"):
                o = e.native.run([("pweval", str(n), flat + [xv])], prof)[0]
                want = pv[py_spec_index(ev, xv)]
                if isinstance(o, str) or o[0] != want:
                    bad.append("%s build: %d segments with ends %r, x=%r: evaluate returned piece %r, the rule selects piece %r" % (
                        prof, n, ev, xv, o if isinstance(o, str) else o[0], want))
            if bad:
                return True, path, "; ".join(bad[:1])
            return False, path, "model does not reproduce natively"

        kit = info["kit"]
        goals = [kit.same(res, spec)] + [z3.Not(pc) for (pc, _) in mp.panic_conds]
        e.prove(label,
                "MIR of Piecewise::evaluate on %d symbolic segments (all %d search paths), all non-NaN non-decreasing ends and all "
                "non-NaN x (%s): the piece evaluated (uninterpreted EV(piece, x)) is the first whose end > x, else the last; no panic path"
                % (n, info["paths"], REAL_NOTE if real else "bit-precise binary64"), assum, z3.And(*goals),
                dom_name="real-uf" if real else "fp-uf", functions=FUNCS_EVAL,
                witness_terms={"x": x, "e0": ends[0]}, role="segment-selection", replay=replay,
                extra_bounds={"segments": n, "paths": info["paths"]})


# ---------------------------------------------------------------------------------------------------- C12
def c12_obligations(e, sizes, real=True):
    funcs = ["Piecewise::evaluate_v", "Piecewise::evaluate_v::{closure#0}", "{closure#0}::{closure#0}", "{closure#0}::{closure#1}"]
    for (n, q) in sizes:
        label = "evaluate_v%s[n=%d,q=%d]" % ("" if real else "-fp", n, q)
        try:
            assum, paths, info = ctrl.evaluate_v_run(e, n, q, real=real)
        except (Unsupported, PathLimit) as ex:
            e.not_encoded(label, "evaluate_v equals evaluation at the running maximum", ex, funcs)
            continue
        ends, pieces, xs = info["ends"], info["pieces"], info["xs"]
        kit = info["kit"]
        goals = []
        lazy_ok = True
        for p in paths:
            if p.panic is not None:
                goals.append((p.cond(), z3.BoolVal(False)))
                continue
            outs, pulled = p.result.fields
            per = []
            if pulled[0] != 0 or any(pulled[k + 1] != min(k + 1, q) for k in range(q + 1)):
                lazy_ok = False
            if outs[q] is not None or any(outs[k] is None for k in range(q)):
                per.append(z3.BoolVal(False))
            else:
                for k in range(q):
                    rm = kit.fmax_chain(xs, k)
                    want = kit.spec_piece_chain(ends, [kit.EV(pc, xs[k]) for pc in pieces], rm)
                    per.append(kit.same(outs[k].t, want))
            goals.append((p.cond(), z3.And(*per)))
        goals.append((z3.BoolVal(True), z3.BoolVal(lazy_ok)))

        def replay(model, ob, n=n, q=q, ends=ends, xs=xs):
            ev = [mv(model, t) for t in ends]
            xv = [mv(model, t) for t in xs]
            pv = [float(i + 1) for i in range(n)]
            flat = []
            for a, b in zip(ev, pv):
                flat += [a, b]
            req = ["pwevalv", "%dx%d" % (n, q), flat + xv]
            path = e.write_replay(ob.name, {"kind": "E2-native-pwevalv", "request": req,
                                            "statement": "evaluate_v output k is the piece direct evaluation selects for max(x_0..x_k)"})
            bad = []
            for prof in ("dev", "release"):
                o = e.native.run([tuple(req)], prof)[0]
                want, rm = [], float("-inf")
                for v in xv:
                    rm = max(rm, v)
                    want.append(pv[py_spec_index(ev, rm)])
                if isinstance(o, str) or list(o) != want:
                    bad.append("%s build: ends %r, arguments %r: evaluate_v used pieces %r, the rule gives %r" % (prof, ev, xv, o, want))
            if bad:
                return True, path, "; ".join(bad[:1])
            return False, path, "model does not reproduce natively"

        prove_paths(e, label,
                "MIR of evaluate_v on %d symbolic segments and %d symbolic non-NaN arguments (%d feasible paths): exactly %d outputs, the k-th "
                "after pulling exactly k inputs (counted concretely), each the piece that direct evaluation selects for the running maximum, "
                "evaluated at x_k; no panic path" % (n, q, len(paths), q) + (" [%s]" % REAL_NOTE if real else ""), assum, goals, real,
                dom_name="real-uf" if real else "fp-uf", functions=funcs,
                witness_terms={"x0": xs[0], "e0": ends[0]}, role="evaluate_v", replay=replay,
                extra_bounds={"segments": n, "arguments": q, "paths": len(paths)})


# ---------------------------------------------------------------------------------------------------- C03 / C16
def evaluator_obligations(e, sizes, allow_nan=False, real=True):
    if allow_nan:
        real = False
    funcs = ["PiecewiseEvaluator::new", "PiecewiseEvaluator::evaluate", "evaluate::{closure#0}", "evaluate::{closure#0}::{closure#0}"]
    for (n, q) in sizes:
        label = "evaluator%s%s[n=%d,q=%d]" % ("-nan" if allow_nan else "", "" if real else "-fp", n, q)
        try:
            assum, paths, info = ctrl.evaluator_run(e, n, q, allow_nan=allow_nan, real=real)
        except (Unsupported, PathLimit) as ex:
            e.not_encoded(label, "evaluator equals direct evaluation on every history", ex, funcs)
            continue
        ends, pieces, xs = info["ends"], info["pieces"], info["xs"]
        goals = []
        for p in paths:
            if p.panic is not None:
                goals.append((p.cond(), z3.BoolVal(False)))
                continue
            outs = p.result.fields[0]
            per = []
            kit = info["kit"]
            for k in range(q):
                want = kit.spec_piece_chain(ends, [kit.EV(pc, xs[k]) for pc in pieces], xs[k])
                g = kit.same(outs[k].t, want)
                per.append(z3.Implies(kit.not_nan(xs[k]), g) if allow_nan else g)
            goals.append((p.cond(), z3.And(*per)))

        def replay(model, ob, n=n, q=q, ends=ends, xs=xs):
            ev = [mv(model, t) for t in ends]
            xv = []
            for t in xs:
                v = model_value(model, t)
                xv.append(float("nan") if (v is not None and v != v) else (0.0 if v is None else float(v)))
            pv = [float(i + 1) for i in range(n)]
            flat = []
            for a, b in zip(ev, pv):
                flat += [a, b]
            req = ["pwevaluator", "%dx%d" % (n, q), flat + xv]
            path = e.write_replay(ob.name, {"kind": "E2-native-pwevaluator", "request": req,
                                            "statement": "every non-NaN query is answered with the piece direct evaluation selects"})
            bad = []
            for prof in ("dev", "release"):
                o = e.native.run([tuple(req)], prof)[0]
                if isinstance(o, str):
                    bad.append("%s build: %s" % (prof, o))
                    continue
                for k, v in enumerate(xv):
                    if v == v and o[k] != pv[py_spec_index(ev, v)]:
                        bad.append("%s build: ends %r, history %r: query %d (x=%r) answered from piece %r, direct evaluation selects %r" % (
                            prof, ev, xv, k, v, o[k], pv[py_spec_index(ev, v)]))
                        break
            if bad:
                return True, path, "; ".join(bad[:1])
            return False, path, "model does not reproduce natively"

        prove_paths(e, label,
                "MIR of PiecewiseEvaluator::new + %d evaluate calls on %d symbolic segments (%d feasible paths), all %s histories: every %squery "
                "is answered with the piece direct evaluation selects, evaluated at that argument; no panic path" % (
                    q, n, len(paths), "f64 (NaN allowed)" if allow_nan else "non-NaN", "non-NaN " if allow_nan else ""),
                assum, goals, real, dom_name="real-uf" if real else "fp-uf", functions=funcs, witness_terms={"x0": xs[0], "e0": ends[0]},
                role="nan-poisons-evaluator" if allow_nan else "history-mismatch", replay=replay,
                extra_bounds={"segments": n, "history_length": q, "paths": len(paths)})


# ---------------------------------------------------------------------------------------------------- C13
def c13_obligations(e, sizes, real=True, ops=(False, True)):
    for sub in ops:
        opn = "sub" if sub else "add"
        funcs = ["<&Piecewise<T> as %s<&Piecewise<T>>>::%s" % ("Sub" if sub else "Add", opn)]
        for (n, m) in sizes:
            label = "%s%s[n=%d,m=%d]" % (opn, "" if real else "-fp", n, m)
            try:
                assum, paths, info = ctrl.merge_run(e, n, m, sub, real=real)
            except (Unsupported, PathLimit) as ex:
                e.not_encoded(label, "piecewise %s is pointwise on the merged breakpoints" % opn, ex, funcs)
                continue
            ef, eg, pf, pg = info["ef"], info["eg"], info["pf"], info["pg"]
            kit = info["kit"]
            x = kit.var("xq")
            opc = z3.IntVal(2 if sub else 1)
            # expected piece at x: COMB(piece f selects at x, piece g selects at x, op)
            wf = kit.spec_piece_chain(ef, pf, x)
            wg = kit.spec_piece_chain(eg, pg, x)
            want = kit.COMB(wf, wg, opc)
            goals = []
            for p in paths:
                if p.panic is not None:
                    goals.append((p.cond(), z3.BoolVal(False)))
                    continue
                segs = p.result.fields[0].fields
                L = len(segs)
                per = [z3.BoolVal(1 <= L <= n + m - 1)]
                rends = [s.fields[0].t for s in segs]
                rk = [s.fields[1].fields[0].t for s in segs]
                for i in range(L):
                    per.append(kit.not_nan(rends[i]))
                    if i:
                        per.append(kit.le(rends[i - 1], rends[i]))
                    per.append(z3.Or(*[rends[i] == t for t in ef + eg]))
                got = kit.spec_piece_chain(rends, rk, x)
                per.append(z3.Implies(kit.not_nan(x), got == want))
                goals.append((p.cond(), z3.And(*per)))

            def replay(model, ob, n=n, m=m, ef=ef, eg=eg, x=x, sub=sub):
                fv = [mv(model, t) for t in ef]
                gv = [mv(model, t) for t in eg]
                xv = mv(model, x)
                fk = [float(100 * (i + 1)) for i in range(n)]
                gk = [float(i + 1) for i in range(m)]
                flat = []
                for a, b in zip(fv, fk):
                    flat += [a, b]
                for a, b in zip(gv, gk):
                    flat += [a, b]
                req = ["pwsub" if sub else "pwadd", "%dx%d" % (n, m), flat]
                path = e.write_replay(ob.name, {"kind": "E2-native-pwmerge", "request": req, "x": xv,
                                                "statement": "result is well-formed and at every x combines the pieces f and g select at x"})
                bad = []
                pts = [xv] + fv + gv + [v + 0.5 for v in fv + gv] + [min(fv + gv) - 1.0]
                for prof in ("dev", "release"):
                    o = e.native.run([tuple(req)], prof)[0]
                    if isinstance(o, str):
                        bad.append("%s build: %s on f ends %r, g ends %r" % (prof, o, fv, gv))
                        continue
                    rends, rks = list(o[0::2]), list(o[1::2])
                    if not (1 <= len(rends) <= n + m - 1) or any(rends[i] > rends[i + 1] for i in range(len(rends) - 1)):
                        bad.append("%s build: result breakpoints %r (f %r, g %r) are not a well-formed merge" % (prof, rends, fv, gv))
                        continue
                    for pt in pts:
                        if pt != pt:
                            continue
                        a, b = fk[py_spec_index(fv, pt)], gk[py_spec_index(gv, pt)]
                        exp = a - b if sub else a + b
                        got = rks[py_spec_index(rends, pt)]
                        if got != exp:
                            bad.append("%s build: f ends %r, g ends %r: at x=%r the result combines to %r, f(x)%sg(x) = %r" % (
                                prof, fv, gv, pt, got, "-" if sub else "+", exp))
                            break
                if bad:
                    return True, path, "; ".join(bad[:1])
                return False, path, "model does not reproduce natively"

            prove_paths(e, label,
                    "MIR of the %s merge loop on operands of %d and %d symbolic pieces (%d feasible paths), all non-NaN non-decreasing "
                    "breakpoints, every non-NaN x: 1..%d pieces, non-decreasing non-NaN breakpoints each equal to an operand breakpoint, "
                    "and the piece selected at x is COMB(piece f selects, piece g selects, this operator); no panic path" % (
                        opn, n, m, len(paths), n + m - 1) + (" [%s]" % REAL_NOTE if real else ""), assum, goals, real,
                    dom_name="real-uf" if real else "fp-uf", functions=funcs,
                    witness_terms={"x": x, "ef0": ef[0], "eg0": eg[0]}, role="merge-" + opn, replay=replay,
                    extra_bounds={"len_f": n, "len_g": m, "paths": len(paths)})


# ---------------------------------------------------------------------------------------------------- C19
def c19_obligations(e, ks):
    from interp import ResV
    funcs = ["<Piecewise<T> as Arbitrary>::arbitrary", "arbitrary::{closure#0}", "arbitrary::{closure#1}", "arbitrary::{closure#2}"]
    for (k, fails) in ks:
        label = "arbitrary-logic[k=%d%s]" % (k, "" if fails else ",pieces-ok")
        try:
            paths, ends = ctrl.arbitrary_run(e, k, piece_failures=fails)
        except (Unsupported, PathLimit) as ex:
            e.not_encoded(label, "Arbitrary returns Err or a well-formed function", ex, funcs)
            continue
        cases = []
        n_ok = 0
        for p in paths:
            if p.panic is not None:
                cases.append((p.cond(), z3.BoolVal(False)))
                continue
            r = p.result
            if not isinstance(r, ResV):
                cases.append((p.cond(), z3.BoolVal(False)))
                continue
            if not r.ok:
                continue
            n_ok += 1
            segs = r.fields[0].fields[0].fields
            rends = [s_.fields[0].t for s_ in segs]
            per = [z3.BoolVal(len(segs) >= 1), z3.BoolVal(len(segs) == k)]
            for i, t in enumerate(rends):
                per.append(z3.fpIsNormal(t))
                if i:
                    per.append(z3.fpLEQ(rends[i - 1], t))
            cases.append((p.cond(), z3.And(*per)))

        def replay(model, ob, k=k, ends=ends):
            ev = []
            for t in ends:
                v = model_value(model, t)
                ev.append(float("nan") if (v is not None and v != v) else (0.0 if v is None else float(v)))
            req = ["arb", str(k), ev + [float(i + 1) for i in range(k)]]
            path = e.write_replay(ob.name, {"kind": "E2-native-arbitrary", "request": req,
                                            "statement": "Arbitrary returns Err or >=1 segment with normal, non-decreasing breakpoints"})
            bad = []
            import math
            for prof in ("dev", "release"):
                o = e.native.run([tuple(req)], prof)[0]
                if isinstance(o, str):
                    if o.startswith("PANIC"):
                        bad.append("%s build: arbitrary panicked on the byte string encoding ends %r" % (prof, ev))
                    continue
                got = list(o[0::2])
                okk = len(got) >= 1 and all((v == v and not math.isinf(v) and abs(v) >= 2.2250738585072014e-308) for v in got) and \
                    all(got[i] <= got[i + 1] for i in range(len(got) - 1))
                if not okk:
                    bad.append("%s build: byte string encoding the ends %r decodes to Ok with breakpoints %r" % (prof, ev, got))
            if bad:
                return True, path, "; ".join(bad[:1])
            return False, path, "model does not reproduce natively"

        e.prove_cases(label,
                      "MIR of the Arbitrary impl with the dependency's decoders replaced by their contract (Vec<f64>::arbitrary = ANY %d binary64 "
                      "values incl. NaN/inf/subnormal/zero in any order%s), bit-precise, %d feasible paths (%d return Ok): every Ok result has "
                      "exactly %d >= 1 segments whose breakpoints are all normal and non-decreasing; no panic path" % (
                          k, "; T::arbitrary = Ok(any piece) or Err at any position" if fails else "", len(paths), n_ok, k),
                      [], cases, dom_name="fp", functions=funcs, witness_terms={"end0": ends[0]} if ends else {}, role="arbitrary-wellformed",
                      replay=replay, extra_bounds={"list_length": k, "paths": len(paths)})
