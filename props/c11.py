"""C11 — piecewise integration is continuous at breakpoints and is the true integral
(engine E1 for the running-knot structure, engine E2 for whole-function runs with real piece types)."""
import os
import re
import sys

import z3

sys.path.insert(0, os.path.join(os.path.dirname(os.path.dirname(os.path.abspath(__file__))), "e2"))
import api
import validate
from domains import RealDomain, Num
from e1 import HarnessSpec
from engine import E2, model_value, show, purify
from interp import Unsupported, PathLimit
from props.e1util import run_e1, replay_cmd
from props.c09 import G_oracle, R_stub

LEVEL = "proof"
E1_FUNCS = ["<Piecewise<T> as HasIntegral>::integral", "<Piecewise<T> as HasIntegral>::indefinite", "Segment::integral_iter",
            "Segment::integral_iter_ref", "<Segment<T> as HasIntegral>::integral"]


def e1_specs(tier):
    ns = [1, 2, 3] if tier == "quick" else [1, 2, 3, 4]
    out = []
    for n in ns:
        for mode, what in (("integral", "integral(k0)"), ("indefinite", "indefinite()")):
            out.append(HarnessSpec(
                "c11::c11_%s_n%d" % (mode, n),
                "for all non-NaN ends[%d], all pieces and all knots k0 with finite y: Piecewise::%s has the same number of pieces and the same "
                "breakpoints, and piece i is bit-for-bit indefinite(piece i) translated by knot_i.y - U_i(knot_i.x) with knot_0 = k0%s and "
                "knot_(i+1) = (end_i, U_i(end_i))" % (n, what, " (first piece untranslated)" if mode == "indefinite" else ""),
                E1_FUNCS, {"segments": n, "unwind": n + 3}, timeout_s=400 if tier == "quick" else 1200, role="pw-" + mode))
    for n in ([2] if tier == "quick" else [2, 3]):
        for mode in ("iter_ref", "iter_val"):
            out.append(HarnessSpec("c11::c11_%s_n%d" % (mode, n),
                                   "Segment::integral_%s over %d segments yields exactly the pieces of the running-knot recurrence (so by-value and "
                                   "by-reference iterators agree piece for piece)" % ("iter_ref" if mode == "iter_ref" else "iter", n),
                                   E1_FUNCS, {"segments": n, "unwind": n + 3}, timeout_s=400, role="pw-integral-iter"))
    out.append(HarnessSpec("c11::c11_indefinite_empty", "indefinite() of the empty piecewise function is the empty function", E1_FUNCS,
                           {"segments": 0}, timeout_s=200, role="pw-indefinite"))
    return out


def pev(c, x):
    r, pw = z3.RealVal(0), z3.RealVal(1)
    for ci in c:
        r = r + ci * pw
        pw = pw * x
    return r


def native_pw_check(e, kind, k, n, segs, kx, ky, indefinite=False):
    """Run the real Piecewise<..>::integral / indefinite and check C11's concrete statement.
    segs: [(end, [piece numbers])]; kind 'P' (PolyK) or 'LP' (Log<PolyK>).  Returns list of messages."""
    import mpmath
    from fractions import Fraction
    mpmath.mp.dps = 50
    tag = "%s%d" % (kind, k)
    out_tag = ("P%d" % (k + 1)) if kind == "P" else ("ILP4" if k == 4 else "IL%d" % k)
    flat = []
    for (en, cs) in segs:
        flat += [en] + list(cs)
    req = ("pwindef" if indefinite else "pwinteg", "%sx%d" % (tag, n), flat + ([] if indefinite else [kx, ky]))
    msgs = []
    for prof in ("dev", "release"):
        o = e.native.run([req], prof)[0]
        if isinstance(o, str):
            msgs.append("%s build: %s" % (prof, o))
            continue
        w = 1 + api.type_len(out_tag)
        if len(o) != n * w:
            msgs.append("%s build: result has %d numbers, expected %d pieces" % (prof, len(o), n))
            continue
        F = [(o[i * w], o[i * w + 1:(i + 1) * w]) for i in range(n)]

        def ev(i, t):
            r = e.native.run([("eval", out_tag, list(F[i][1]) + [t])], prof)[0]
            return r[0]
        scale = 1.0 + abs(ky) + max(abs(x) for (_, cs) in segs for x in cs)
        for i in range(n):
            if F[i][0] != segs[i][0]:
                msgs.append("%s build: breakpoint %d changed: %r -> %r" % (prof, i, segs[i][0], F[i][0]))
        if not indefinite:
            v0 = ev(0, kx)
            if not abs(v0 - ky) <= 1e-9 * (scale + abs(v0)):
                msgs.append("%s build: first piece does not pass through k0=(%r,%r): F(k0.x)=%r" % (prof, kx, ky, v0))
        for i in range(1, n):
            b = segs[i - 1][0]
            l, r = ev(i - 1, b), ev(i, b)
            if not abs(l - r) <= 1e-9 * (scale + abs(l) + abs(r)):
                msgs.append("%s build: pieces %d and %d disagree at breakpoint %r: %r vs %r" % (prof, i - 1, i, b, l, r))
        # antiderivative of the corresponding piece: F_i(b)-F_i(a) against the exact integral of piece i over [a,b]
        for i in range(n):
            cs = segs[i][1]
            a_, b_ = (1.25, 2.75) if kind == "LP" else (-0.5, 1.5)
            got = mpmath.mpf(ev(i, b_)) - mpmath.mpf(ev(i, a_))
            if kind == "P":
                exact = sum(mpmath.mpf(c) * (mpmath.mpf(b_) ** (j + 1) - mpmath.mpf(a_) ** (j + 1)) / (j + 1) for j, c in enumerate(cs))
            else:
                exact = mpmath.quad(lambda t: sum(mpmath.mpf(c) * mpmath.log(t) ** j for j, c in enumerate(cs)), [a_, b_])
            if not abs(got - exact) <= mpmath.mpf(10) ** -9 * (scale + abs(exact)):
                msgs.append("%s build: piece %d is not an antiderivative of the corresponding piece: F(%r)-F(%r)=%s, exact integral %s" % (
                    prof, i, b_, a_, mpmath.nstr(got, 15), mpmath.nstr(exact, 15)))
    return msgs


def make_pw_replay(e, kind, k, n, names, rs, indefinite=False):
    def replay(model, ob):
        vals = {nm: model_value(model, rs[nm]) for nm in names}
        vals = {nm: (0.0 if v is None else float(v)) for nm, v in vals.items()}
        pre = "f" if kind == "P" else "p"
        segs = [(vals["e%d" % i], [vals["%s%d_%d" % (pre, i, j)] for j in range(k + 1)]) for i in range(n)]
        kx, ky = vals.get("kx", 1.0), vals.get("ky", 0.0)
        if kind == "LP":
            # logs need positive, increasing breakpoints and knot; ln is a free symbol in the query, so re-place them
            segs = [(2.0 + i, cs) for i, (en, cs) in enumerate(segs)]
            kx = 1.5
        path = e.write_replay(ob.name, {"kind": "E2-native-pwinteg", "piece": "%s%d" % (kind, k), "segments": segs, "kx": kx, "ky": ky,
                                        "indefinite": indefinite,
                                        "statement": "same breakpoints, first piece through k0, continuous at interior breakpoints, each piece an antiderivative"})
        msgs = native_pw_check(e, kind, k, n, segs, kx, ky, indefinite)
        if msgs:
            return True, path, "; ".join(msgs[:2])
        return False, path, "model does not violate the statement natively"
    return replay


def e2_poly(e, n, k, indefinite=False):
    ty = "W%d:P%d" % (n, k)
    label = "Piecewise<Poly%d>[n=%d].%s" % (k, n, "indefinite()" if indefinite else "integral(k0)")
    w = 1 + (k + 1)
    names = []
    for i in range(n):
        names += ["e%d" % i] + ["f%d_%d" % (i, j) for j in range(k + 1)]
    if not indefinite:
        names += ["kx", "ky"]
    funcs = ["<Piecewise<T> as HasIntegral>::%s" % ("indefinite" if indefinite else "integral"), "Segment::integral_iter_ref",
             "<Segment<T> as HasIntegral>::integral", "<Poly%d as HasIntegral>::integral" % k, "<Poly%d as Evaluate>::evaluate" % (k + 1)]
    try:
        dom = RealDomain(False)
        res = api.run(e, dom, "indef" if indefinite else "integ", ty, lambda d: [d.sym(nm) for nm in names])
    except (Unsupported, PathLimit) as ex:
        e.not_encoded(label, "whole-function piecewise integration", ex, funcs)
        return
    if len(res) != 1 or res[0][0].panic is not None:
        e.not_encoded(label, "whole-function piecewise integration", "forks or panics", funcs)
        return
    p, nums, _ = res[0]
    wo = 1 + (k + 2)
    rs = {nm: z3.Real(nm) for nm in names}
    goals = []
    if len(nums) != n * wo:
        goals.append(("shape", z3.BoolVal(False)))
    else:
        F = [[t.t for t in nums[i * wo + 1:(i + 1) * wo]] for i in range(n)]
        ends = [nums[i * wo].t for i in range(n)]
        for i in range(n):
            goals.append(("end%d" % i, ends[i] == rs["e%d" % i]))
            goals.append(("antiderivative%d" % i, z3.And(*[(j + 1) * F[i][j + 1] == rs["f%d_%d" % (i, j)] for j in range(k + 1)])))
            if i > 0:
                goals.append(("continuity@%d" % i, pev(F[i], rs["e%d" % (i - 1)]) == pev(F[i - 1], rs["e%d" % (i - 1)])))
        if indefinite:
            goals.append(("first-constant-zero", F[0][0] == 0))
        else:
            goals.append(("through-k0", pev(F[0], rs["kx"]) == rs["ky"]))
    wt = {nm: rs[nm] for nm in names[:6]}
    for nm, g in goals:
        e.prove("%s:%s" % (label, nm),
                {"end": "breakpoint %s unchanged", "ant": "piece is an antiderivative of the corresponding piece (coefficient-wise), %s",
                 "con": "adjacent pieces agree in value at the interior breakpoint (%s)", "fir": "first piece's additive constant is zero (%s)",
                 "thr": "first piece passes through k0 (%s)", "sha": "same number of pieces (%s)"}[nm[:3]] % nm +
                " -- exact arithmetic, all real coefficients, breakpoints and knots", list(p.side), g, dom_name="real", functions=funcs,
                witness_terms=wt, role="pw-integral-" + re.sub(r"[@\d]+$", "", nm),
                replay=make_pw_replay(e, "P", k, n, names, rs, indefinite),
                prefer=[z3.And(v >= -3, v <= 3) for v in rs.values()])


def e2_log(e, n, k):
    """Piecewise<Log<Poly k>>::integral: continuity, through-k0 and antiderivative (vs the textbook G) with ln as a free real per point."""
    ty = "W%d:LP%d" % (n, k)
    out_ty = "ILP4" if k == 4 else "IL%d" % k
    label = "Piecewise<Log<Poly%d>>[n=%d].integral(k0)" % (k, n)
    names = []
    for i in range(n):
        names += ["e%d" % i] + ["p%d_%d" % (i, j) for j in range(k + 1)]
    names += ["kx", "ky"]
    funcs = ["<Piecewise<T> as HasIntegral>::integral", "Segment::integral_iter_ref", "<Segment<T> as HasIntegral>::integral",
             "<Log<Poly%d> as HasIntegral>::integral" % k]
    try:
        dom = RealDomain(False)
        stub, Rf = R_stub(dom)
        stubs = {"exp_5_taylor": stub}
        res = api.run(e, dom, "integ", ty, lambda d: [d.sym(nm) for nm in names], stubs=stubs)
        if len(res) != 1 or res[0][0].panic is not None:
            raise Unsupported("forks or panics")
        p, nums, _ = res[0]
        wo = 1 + api.type_len(out_ty)
        if len(nums) != n * wo:
            raise Unsupported("unexpected result shape")
        rs = {nm: z3.Real(nm) for nm in names}
        side = list(p.side)

        def ev(i, point):
            r = api.run(e, dom, "eval", out_ty, lambda d: list(nums[i * wo + 1:(i + 1) * wo]) + [d.sym(point)], stubs=stubs)
            side.extend(r[0][0].side)
            return r[0][1][0].t
        goals = []
        goals.append(("through-k0", ev(0, "kx") == rs["ky"]))
        for i in range(1, n):
            goals.append(("continuity@%d" % i, ev(i, "e%d" % (i - 1)) == ev(i - 1, "e%d" % (i - 1))))
        v, w = z3.Real("v"), z3.Real("w")
        lnf = dom.ln_f
        axioms = []
        pts = [v, w, rs["kx"]] + [rs["e%d" % i] for i in range(n)]
        if k == 4:
            for tt in pts:
                x = -lnf(tt)
                s5 = 1 + x + x * x / 2 + x * x * x / 6 + x * x * x * x / 24
                axioms.append(x * x * x * x * x * Rf(x) * tt == 1 - tt * s5)
        for i in range(n):
            ps = [rs["p%d_%d" % (i, j)] for j in range(k + 1)]
            goals.append(("antiderivative%d" % i, ev(i, "v") - G_oracle(ps, v, lnf(v)) == ev(i, "w") - G_oracle(ps, w, lnf(w))))
    except (Unsupported, PathLimit) as ex:
        e.not_encoded(label, "whole-function piecewise log integration", ex, funcs)
        return
    for nm, g in goals:
        fs, _ = purify([z3.And(*(side + axioms)) if side + axioms else z3.BoolVal(True), g], names=("ln_real", "exp_real", "R_exp5"))
        e.prove("%s:%s" % (label, nm),
                {"thr": "first piece passes through k0", "con": "adjacent pieces agree at the interior breakpoint",
                 "ant": "piece differs from the textbook antiderivative of the corresponding piece by a constant"}[nm[:3]] +
                " (%s) -- exact arithmetic, ln a free real per point" % nm, [fs[0]], fs[1], dom_name="real", functions=funcs,
                witness_terms={"kx": rs["kx"], "ky": rs["ky"]}, role="pw-log-integral-" + re.sub(r"[@\d]+$", "", nm),
                replay=make_pw_replay(e, "LP", k, n, names, rs),
                prefer=[z3.And(rs[nm_] >= -3, rs[nm_] <= 3) for nm_ in names if nm_.startswith("p") or nm_ == "ky"])


def run(rep, tier):
    rep.explanation = ("(E1) Kani decides that Piecewise::integral / indefinite / both segment iterators produce, bit for bit, the pieces of the "
                       "property's running-knot recurrence for a logging piece type. (E2) Piecewise<PolyK>/Piecewise<Log<PolyK>>::integral "
                       "are executed symbolically as a whole from MIR and z3 proves breakpoints unchanged, first piece through k0, "
                       "continuity at every interior breakpoint and piece-wise antiderivative identities in exact arithmetic. "
                       "F(t) = k0.y + integral of f then follows by the fundamental theorem of calculus (mathematical step).")
    rep.bounds = {"segments": "1..3 (quick) / 1..4 (thorough) for the structure; 2..3 for whole-function runs",
                  "piece_types_e2": "Poly1, Poly3, Log<Poly1> (quick); + Poly7, Log<Poly4>, Log<Poly8> (thorough)",
                  "outside": "rounding at the breakpoints (one subtraction per piece; bounded per piece by C07/C09's knot residual)"}
    e = E2(rep, tier)
    specs = [("integ", "SP2", 6, ()), ("integ", "SLP2", 6, (4,))]
    if validate.validate(e, specs, seed=rep.seed, n_rand=3):
        cfg = [(2, 1), (3, 1), (2, 3)] if tier == "quick" else [(2, 1), (3, 1), (2, 3), (3, 3), (2, 7)]
        for (n, k) in cfg:
            e2_poly(e, n, k)
        e2_poly(e, 2, 1, indefinite=True)
        if tier == "thorough":
            e2_poly(e, 3, 3, indefinite=True)
        for (n, k) in ([(2, 1)] if tier == "quick" else [(2, 1), (3, 1), (2, 4), (2, 8)]):
            e2_log(e, n, k)
    from props.c15 import STRUCT_SIZES_QUICK, STRUCT_SIZES_THOROUGH
    from props.struct_obl import structural_obligations
    structural_obligations(e, ["integ", "indef", "iterref", "iter"], STRUCT_SIZES_QUICK if tier == "quick" else STRUCT_SIZES_THOROUGH,
                           "pw-integral-structure")
    rep.bounds["segments_structure_encoding"] = "%s (thorough to 1000): Piecewise::integral / indefinite and both segment iterators from the MIR " \
        "with Segment::integral / indefinite / piece evaluate uninterpreted" % STRUCT_SIZES_QUICK
    e.finish()
    run_e1(rep, e1_specs(tier))


def replay(path):
    if path.endswith(".rs"):
        return replay_cmd(path)
    import json
    d = json.load(open(path))
    if d.get("kind") == "E2-native-structural":
        from props.struct_obl import replay_file
        return replay_file(path)
    if d.get("kind") == "E2-native-pwinteg":
        from engine import Native

        class _E:
            native = Native()
        kind = "LP" if d["piece"].startswith("LP") else "P"
        k = int(d["piece"][len(kind):])
        segs = [(en, cs) for en, cs in d["segments"]]
        msgs = native_pw_check(_E(), kind, k, len(segs), segs, d["kx"], d["ky"], d.get("indefinite", False))
        for m in msgs:
            print(m)
        return 1 if msgs else 0
    print("no native replay recorded for this obligation; see the model in the evidence file")
    return 2
