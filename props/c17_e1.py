"""E1 anchor harnesses for C17 (the real approx code on small types)."""
from e1 import HarnessSpec


def specs(tier):
    out = []
    for nm, what in (("c17_absdiff_poly1", "real approx code, all non-NaN inputs: Poly1::abs_diff_eq == conjunction of the scalar relation over both coefficients"),
                     ("c17_absdiff_segment_poly0", "real approx code: Segment<Poly0>::abs_diff_eq == scalar relation on end AND on the piece"),
                     ("c17_absdiff_piecewise_poly0_lengths", "real approx code: Piecewise<Poly0> with 1 vs 2 pieces is never abs_diff_eq (both orders)")):
        out.append(HarnessSpec("c17::" + nm, what, ["approx::AbsDiffEq for [f64; N], [T] (dependency)", "abs_diff_eq impls of Poly1/Segment/Piecewise"],
                               {"unwind": 5}, timeout_s=600 if tier == "quick" else 1800, mem_gb=14, role="approx-anchor"))
    if tier == "thorough":
        out.append(HarnessSpec("c17::c17_absdiff_piecewise_poly0_pairs",
                               "real approx code: Piecewise<Poly0> (2 vs 2 pieces)::abs_diff_eq == conjunction over all four numbers",
                               ["approx::AbsDiffEq for [T] (dependency)", "Piecewise/Segment/Poly0 abs_diff_eq"], {"unwind": 5},
                               timeout_s=2400, mem_gb=14, role="approx-anchor"))
    return out
