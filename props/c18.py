"""C18 — serialization round-trips every value bit for bit (engine E1; text formats not applicable)."""
from e1 import HarnessSpec
from props.e1util import run_e1, replay_cmd

LEVEL = "model_checking"

SERDE = ["knot", "poly0", "poly1", "poly2", "poly3", "poly4", "poly5", "poly6", "poly7", "poly8", "log_poly1", "intoflog_poly2",
         "intoflogpoly4", "segment_poly1", "segment_intoflogpoly4", "pw_poly0_n0", "pw_poly0_n1", "pw_poly0_n2", "pw_poly0_n3", "pw_poly1_n2"]
SERDE_QUICK = ["knot", "poly0", "poly3", "poly8", "log_poly1", "intoflog_poly2", "intoflogpoly4", "segment_poly1", "pw_poly0_n0",
               "pw_poly0_n2", "pw_poly1_n2"]
BORSH = ["knot", "poly0", "poly1", "poly3", "poly8", "log_poly1", "intoflog_poly2", "intoflogpoly4", "segment_poly1", "nan_rejected"]
BORSH_QUICK = ["knot", "poly3", "log_poly1", "intoflog_poly2", "intoflogpoly4", "segment_poly1", "nan_rejected"]


def specs_serde(tier):
    out = []
    for nm in (SERDE_QUICK if tier == "quick" else SERDE):
        out.append(HarnessSpec(
            "c18::with_serde::serde_" + nm,
            "serde: for ALL non-NaN f64 contents, serializing %s through the crate's derived Serialize impl into a harness-local binary "
            "format and deserializing through the derived Deserialize impl yields identical bits in every number%s, consumes exactly what "
            "was written" % (nm, " and the same number of segments" if nm.startswith("pw_") else ""),
            ["derived Serialize/Deserialize impls (src/poly.rs, src/log_poly.rs, src/piecewise.rs)", "serde (dependency) visitor plumbing"],
            {"type": nm, "unwind": 14}, timeout_s=600 if tier == "quick" else 1800, mem_gb=14, role="serde-roundtrip"))
    return out


def specs_borsh(tier):
    out = []
    for nm in (BORSH_QUICK if tier == "quick" else BORSH):
        if nm == "nan_rejected":
            out.append(HarnessSpec("c18::with_borsh::borsh_nan_rejected", "borsh refuses to serialize NaN (so the non-NaN precondition is the format's own)",
                                   ["derived BorshSerialize for Poly0"], {}, timeout_s=300, role="borsh-nan"))
            continue
        out.append(HarnessSpec(
            "c18::with_borsh::borsh_" + nm,
            "borsh (feature on): for ALL non-NaN f64 contents, %s survives BorshSerialize -> BorshDeserialize with identical bits in every number"
            % nm, ["derived BorshSerialize/BorshDeserialize impls", "borsh (dependency)"], {"type": nm, "unwind": 14},
            timeout_s=600 if tier == "quick" else 1800, mem_gb=14, role="borsh-roundtrip"))
    return out


def run(rep, tier):
    rep.explanation = ("Bounded model checking (Kani) of the derived serialization impls over symbolic non-NaN f64 contents: serde through a "
                       "harness-local non-self-describing binary Serializer/Deserializer, borsh through its own reader/writer on a fixed "
                       "buffer, per concrete type and segment count.")
    rep.bounds = {"segments": "0..3 (serde)", "configurations": ["default features (serde)", "--features borsh"],
                  "outside": "text formats such as JSON (float printing/parsing loops of a dependency: not encodable within reach); borsh "
                  "framing of Vec<Segment<T>> (CBMC does not finish within 400 s in two formulations; Segment<T> and all fixed-size forms are "
                  "covered, the Vec framing is borsh's own code); more than 3 segments"}
    rep.assumptions.append("serde half: the harness-local format (/verif/e1/src/c18.rs, mod fmt) stands for 'a serde data format'; the claim is "
                           "about the derived impls' field order, arity and attributes, not about any particular published format")
    run_e1(rep, specs_serde(tier))
    run_e1(rep, specs_borsh(tier), features=("borsh",))


def replay(path):
    feats = ("borsh",) if "borsh" in path else ()
    return replay_cmd(path, features=feats)
