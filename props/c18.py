"""C18 — serialization round-trips every value bit for bit (engine E1; text formats not applicable)."""
import os
import sys

sys.path.insert(0, os.path.join(os.path.dirname(os.path.dirname(os.path.abspath(__file__))), "e2"))
from e1 import HarnessSpec
from props.e1util import run_e1, replay_cmd

LEVEL = "model_checking"

# every concrete serializable type of the crate (one harness per instantiation); the generic wrappers with two instantiations each
SERDE = ["knot", "poly0", "poly1", "poly2", "poly3", "poly4", "poly5", "poly6", "poly7", "poly8", "log_poly1", "log_poly3", "intoflog_poly0",
         "intoflog_poly2", "intoflogpoly4", "segment_poly1", "segment_intoflogpoly4", "pw_poly0_n0", "pw_poly0_n1", "pw_poly0_n2",
         "pw_poly0_n3", "pw_poly1_n2"]
SERDE_QUICK = SERDE
BORSH = ["knot", "poly0", "poly1", "poly2", "poly3", "poly4", "poly5", "poly6", "poly7", "poly8", "log_poly1", "log_poly3", "intoflog_poly0",
         "intoflog_poly2", "intoflogpoly4", "segment_poly1", "segment_intoflogpoly4", "nan_rejected"]
BORSH_QUICK = BORSH


def specs_serde(tier):
    out = []
    for nm in (SERDE_QUICK if tier == "quick" else SERDE):
        out.append(HarnessSpec(
            "c18::with_serde::serde_" + nm,
            "serde: for ALL non-NaN f64 contents, serializing %s through the crate's derived Serialize impl into a harness-local binary "
            "format and deserializing through the derived Deserialize impl yields identical bits in every number%s, consumes exactly what "
            "was written" % (nm, " and the same number of segments" if nm.startswith("pw_") else ""),
            ["derived Serialize/Deserialize impls (src/poly.rs, src/log_poly.rs, src/piecewise.rs)", "serde (dependency) visitor plumbing"],
            {"type": nm, "unwind": 14}, timeout_s=600 if tier == "quick" else 1800, mem_gb=14, role="serde-roundtrip"))
    return out


def specs_borsh(tier):
    out = []
    for nm in (BORSH_QUICK if tier == "quick" else BORSH):
        if nm == "nan_rejected":
            out.append(HarnessSpec("c18::with_borsh::borsh_nan_rejected", "borsh refuses to serialize NaN (so the non-NaN precondition is the format's own)",
                                   ["derived BorshSerialize for Poly0"], {}, timeout_s=300, role="borsh-nan"))
            continue
        out.append(HarnessSpec(
            "c18::with_borsh::borsh_" + nm,
            "borsh (feature on): for ALL non-NaN f64 contents, %s survives BorshSerialize -> BorshDeserialize with identical bits in every number"
            % nm, ["derived BorshSerialize/BorshDeserialize impls", "borsh (dependency)"], {"type": nm, "unwind": 14},
            timeout_s=600 if tier == "quick" else 1800, mem_gb=14, role="borsh-roundtrip"))
    return out


# ---------------------------------------------------------------------------------------------------------------- E2 (borsh)
BORSH_MIR_TAGS = (["K"] + ["P%d" % k for k in range(9)] + ["LP%d" % k for k in (0, 1, 3, 8)] + ["IL%d" % k for k in (0, 2, 8)]
                  + ["ILP4", "SP0", "SP3", "SLP2", "SIL1", "SILP4"])
BORSH_MIR_PW_QUICK = [(0, "P0"), (1, "P0"), (2, "P1"), (3, "ILP4"), (8, "P3"), (33, "P0"), (64, "P1")]
BORSH_MIR_PW_THOROUGH = BORSH_MIR_PW_QUICK + [(5, "LP4"), (16, "IL2"), (17, "P8"), (128, "P2"), (257, "P0")]


def run_borsh_mir(rep, tier):
    """borsh round trip decided from the MIR of the derive-generated impls (feature borsh), dependency impls by contract."""
    import z3
    import serial
    from engine import E2, model_value
    e = E2(rep, tier, features=("borsh",))
    tags = list(BORSH_MIR_TAGS) + ["W%d:%s" % (n, t) for n, t in (BORSH_MIR_PW_QUICK if tier == "quick" else BORSH_MIR_PW_THOROUGH)]
    for tag in tags:
        if any(v.key == "borsh-roundtrip" for v in rep.violations):
            break  # a natively reproduced violation is already reported for this role; larger sizes add nothing
        name = "borsh-mir:%s" % tag
        what = ("borsh, from the MIR of the derived impls: for ALL non-NaN binary64 contents, %s serializes without error, the written "
                "tape deserializes without error and is consumed exactly, and the value read back has the same shape (number of segments, "
                "array lengths) and, number by number, the same bits" % serial.rust_type(tag))
        try:
            paths, assum, nums0 = serial.roundtrip(e, tag)
        except Exception as ex:
            e.not_encoded(name, what, "%s: %s" % (type(ex).__name__, ex))
            continue
        fns = sorted(f for f in e.rep.functions if "serialize" in f or "deserialize_reader" in f)[:12]
        goals = []
        structural = []
        for p in paths:
            if p.panic is not None:
                goals.append((p.cond(), z3.BoolVal(False), "panic: %s" % p.panic))
                continue
            r = p.result
            if not r["ser_ok"]:
                goals.append((p.cond(), z3.BoolVal(False), "serialize returned Err on non-NaN content"))
                continue
            if not r.get("de_ok"):
                goals.append((p.cond(), z3.BoolVal(False), "deserialize of the written tape returned Err (%s)" % "; ".join(r["events"])))
                continue
            if r["consumed"] != r["written"]:
                goals.append((p.cond(), z3.BoolVal(False), "tape has %d tokens, %d consumed" % (r["written"], r["consumed"])))
                continue
            if serial.shape(r["back"]) != serial.shape(r["value"]):
                goals.append((p.cond(), z3.BoolVal(False), "shape differs: wrote %s, read %s" % (serial.shape(r["value"])[:80],
                                                                                                   serial.shape(r["back"])[:80])))
                continue
            a, b = serial.flat_nums(r["value"]), serial.flat_nums(r["back"])
            goals.append((p.cond(), z3.And([x.t == y.t for x, y in zip(a, b)]) if a else z3.BoolVal(True), "same bits"))
        goal = z3.And([z3.Implies(c, g) for c, g, _ in goals]) if goals else z3.BoolVal(False)
        syms = [x.t for x in nums0]

        def replay(model, ob, tag=tag, syms=syms):
            vals = [model_value(model, t) for t in syms]
            vals = [1.0 if v is None else float(v) for v in vals]
            return replay_borsh(e, tag, vals, ob)
        e.prove(name, what, assum, goal, dom_name="FP", functions=fns,
                witness_terms={("v%d" % i): t for i, t in enumerate(syms[:6])}, role="borsh-roundtrip", replay=replay,
                extra_bounds={"type": serial.rust_type(tag), "paths": len(paths), "numbers": len(syms),
                              "path outcomes": sorted(set(m for _, _, m in goals))})
    e.finish()


def replay_borsh(e, tag, vals, ob):
    want = ([float(int(tag[1:].split(":")[0]))] if tag.startswith("W") else []) + list(vals)
    path = e.write_replay(ob.name, {"kind": "E2-native-borsh", "requests": [["borshrt", tag, vals]], "expected": want,
                                    "statement": "borsh round trip returns the value with identical bits in every number"})
    # the solver's point plus a few fixed stress contents (the deviation may not depend on the values at all)
    import struct
    cands = [vals]
    n = len(vals)
    cands.append([float(i + 1) for i in range(n)])
    cands.append([(-1.0) ** i * (i + 0.5) for i in range(n)])
    cands.append([[float("inf"), float("-inf"), -0.0, 5e-324, 1.7976931348623157e308][i % 5] for i in range(n)])
    bad = []
    for c in cands:
        w = ([want[0]] if tag.startswith("W") else []) + list(c)
        for prof in ("dev", "release"):
            o = e.native.run([("borshrt", tag, c)], prof)[0]
            if isinstance(o, str):
                if "unknown" in o:
                    return False, path, "native oracle has no entry for borshrt %s" % tag
                bad.append("%s build: borsh round trip of %s %r -> %s" % (prof, tag, c[:8], o))
            elif len(o) != len(w) or any(struct.pack("<d", x) != struct.pack("<d", y) for x, y in zip(o, w)):
                bad.append("%s build: borsh round trip of %s %r -> %r" % (prof, tag, c[:8], o[:9]))
        if bad:
            e.write_replay(ob.name, {"kind": "E2-native-borsh", "requests": [["borshrt", tag, c]], "expected": w,
                                     "statement": "borsh round trip returns the value with identical bits in every number"})
            return True, path, "; ".join(bad[:2])
    return False, path, "model does not reproduce natively"


def run(rep, tier):
    rep.explanation = ("Bounded model checking (Kani) of the derived serialization impls over symbolic non-NaN f64 contents: serde through a "
                       "harness-local non-self-describing binary Serializer/Deserializer, borsh through its own reader/writer on a fixed "
                       "buffer, per concrete type and segment count.  In addition the borsh impls that the derive macros generate inside "
                       "this crate are executed symbolically from their MIR (feature borsh) for every type and for piecewise functions of "
                       "up to 64 (thorough 257) segments, with the dependency's own impls (f64, [f64; N], Vec<X>) replaced by their wire "
                       "contract, and the round trip is decided by z3 on symbolic binary64 contents.")
    rep.bounds = {"segments": "0..3 (serde, Kani); borsh from MIR: 0,1,2,3,8,33,64 (thorough +5,16,17,128,257)",
                  "configurations": ["default features (serde)", "--features borsh"],
                  "outside": "text formats such as JSON (float printing/parsing loops of a dependency: not encodable within reach); the "
                  "compiled borsh framing of Vec<Segment<T>> (CBMC does not finish within 400 s in two formulations; Segment<T> and all "
                  "fixed-size forms are covered on the compiled code, Piecewise<T> through the MIR of the derived impls with borsh's Vec "
                  "impl taken by contract); serde with more than 3 segments"}
    rep.assumptions.append("borsh-mir obligations: borsh's impls for f64 (8 bytes LE, NaN refused both ways), [f64; N] (elements in "
                           "order) and Vec<X> (u32 length, elements in order) are modelled by their specification, not executed")
    rep.assumptions.append("serde half: the harness-local format (/verif/e1/src/c18.rs, mod fmt) stands for 'a serde data format'; the claim is "
                           "about the derived impls' field order, arity and attributes, not about any particular published format")
    run_e1(rep, specs_serde(tier))
    run_e1(rep, specs_borsh(tier), features=("borsh",))
    run_borsh_mir(rep, tier)


def replay(path):
    if path.endswith(".json"):
        import json
        import struct
        from engine import Native
        d = json.load(open(path))
        nat = Native(("borsh",))
        bad = 0
        for (op, ty, vals) in d["requests"]:
            for prof in ("dev", "release"):
                o = nat.run([(op, ty, vals)], prof)[0]
                print("%s %s %r -> %r [%s]; expected %r" % (op, ty, vals, o, prof, d.get("expected")))
                if isinstance(o, str) or len(o) != len(d["expected"]) or any(
                        struct.pack("<d", x) != struct.pack("<d", y) for x, y in zip(o, d["expected"])):
                    bad = 1
        return bad
    feats = ("borsh",) if "borsh" in path else ()
    return replay_cmd(path, features=feats)
