"""C17 — approximate equality is number-by-number for every type (engine E2 with uninterpreted base relations + E1 anchor)."""
import os
import re
import sys

import z3

sys.path.insert(0, os.path.join(os.path.dirname(os.path.dirname(os.path.abspath(__file__))), "e2"))
import api
import builtins_model
import validate
from domains import FPDomain, Num
from engine import E2, model_value, show
from interp import Interp, Unsupported, PathLimit
from common import Obligation

LEVEL = "proof"


def native_request(op, ta, tb, a, b, extra):
    """Map an (op, type pair) to a native-oracle request, or None if the oracle has no entry."""
    nop = "absdiff" if op == "absdiff" else "releq"
    m1, m2 = re.match(r"^PN(\d+)$", ta), re.match(r"^PN(\d+)$", tb)
    if m1 and m2:
        return (nop, "PN%sx%s" % (m1.group(1), m2.group(1)), a + b + extra)
    w1, w2 = re.match(r"^W(\d+):P([01])$", ta), re.match(r"^W(\d+):P([01])$", tb)
    if w1 and w2 and w1.group(2) == w2.group(2):
        return (("pw" + nop) + ("1" if w1.group(2) == "1" else ""), "%sx%s" % (w1.group(1), w2.group(1)), a + b + extra)
    if ta == tb and re.match(r"^(P\d|LP[028]|IL[028]|ILP4|SP[01]|SILP4|SLP2|SIL2)$", ta):
        return (nop, ta, a + b + extra)
    return None


def check_pair(e, op, ta, tb):
    name = "abs_diff_eq" if op == "absdiff" else "relative_eq"
    label = "%s:%s%s" % (name, ta, "" if ta == tb else "|" + tb)
    na, nb = api.type_len(ta), api.type_len(tb)
    an = ["a%d" % i for i in range(na)]
    bn = ["b%d" % i for i in range(nb)]
    en = ["eps"] + (["maxrel"] if op == "releq" else [])
    dom = FPDomain()
    it = Interp(e.program, dom, max_paths=max(512, 8 * (na + nb) + 64))  # one short-circuit path per compared number (x2 for relative_eq)
    ty = ta + "|" + tb
    try:
        fn, _, _ = api.build_call(e.program, op, ty, [dom.sym(x) for x in an + bn + en])
        paths = it.explore(fn, lambda d: api.build_call(e.program, op, ty, [d.sym(x) for x in an + bn + en])[1])
    except Unsupported as ex:
        if "no impl of approx relation" in str(ex):
            return None
        e.not_encoded(label, "approx relation is the conjunction over corresponding numbers", ex)
        return False
    except PathLimit as ex:
        e.not_encoded(label, "approx relation is the conjunction over corresponding numbers", ex)
        return False
    e.rep.functions.update(it.functions_run)
    F = z3.Float64()
    A = [Num(dom, z3.FP(x, F)) for x in an]
    B = [Num(dom, z3.FP(x, F)) for x in bn]
    EX = [Num(dom, z3.FP(x, F)) for x in en]
    same_shape = (na == nb) and (ta == tb)
    if same_shape:
        base = [builtins_model.approx_base(dom, name, x, y, EX) for x, y in zip(A, B)]
        want = z3.And(*base) if base else z3.BoolVal(True)
    else:
        base = []
        want = z3.BoolVal(False)
    goals = []
    for p in paths:
        if p.panic is not None:
            goals.append(z3.Not(p.cond()))
            continue
        r = p.result
        rz = z3.BoolVal(r) if isinstance(r, bool) else r
        goals.append(z3.Implies(p.cond(), rz == want))
    funcs = sorted(f for f in it.functions_run if name in f)[:8]

    def replay(model, ob):
        """Realise the model's truth assignment of the scalar relations with concrete numbers and run the real impl.
        Several encodings of 'related' / 'not related' are tried, chosen so that abs_diff_eq and relative_eq (and a dropped
        or hard-coded tolerance) give different answers on at least one of them."""
        truth = [bool(z3.is_true(model.eval(t, model_completion=True))) for t in base] if base else []
        if op == "releq":
            encodings = [((1e6, 1e6 + 1.0), (1e6, 2e6), [0.25, 1e-3]),     # related only through max_relative
                         ((1.0, 1.125), (1.0, 2.0), [0.25, 0.0]),           # related only through epsilon
                         ((1.0, 1.0), (1.0, 1.0 + 2.0 ** -40), [0.0, 0.0]),  # exact equality only
                         ((1000.0, 1000.5), (1000.0, 1002.0), [1e-9, 1e-3]),   # distinguishes (epsilon, max_relative) from the swapped order
                         ((0.0, 5e-4), (0.0, 1.0), [1e-3, 1e-9])]              # ... in the other direction
        else:
            encodings = [((1.0, 1.125), (1.0, 2.0), [0.25]),
                         ((1e22, 1e22), (1e22, 1e22 + 2097152.0), [1.0]),   # relatively tiny, absolutely large difference
                         ((1.0, 1.0), (1.0, 1.0 + 2.0 ** -40), [0.0])]
        req0 = native_request(op, ta, tb, [1.0] * na, [1.0] * nb, encodings[0][2])
        path = e.write_replay(ob.name, {"kind": "E2-native-approx", "request": req0, "expected": bool(all(truth)) if base else False,
                                        "statement": "%s holds exactly when it holds for every corresponding pair of numbers; unequal lengths => false" % name})
        if req0 is None:
            return False, path, "native oracle has no entry for %s on %s" % (op, ty)
        bad = []
        for (rel, unrel, extra) in encodings:
            trials = []
            if base:
                a = [rel[0]] * na
                trials.append((a, [rel[1] if truth[i] else unrel[1] for i in range(nb)], all(truth)))
                for i in range(nb):  # every single-position perturbation
                    bb = [rel[1]] * nb
                    bb[i] = unrel[1]
                    trials.append((a, bb, False))
                trials.append((a, [rel[1]] * nb, True))
            else:
                trials.append(([rel[0]] * na, [rel[1]] * nb, False))
            for prof in ("dev", "release"):
                for (aa, bb, exp) in trials:
                    o = e.native.run([native_request(op, ta, tb, aa, bb, extra)], prof)[0]
                    if isinstance(o, str):
                        return False, path, "native oracle: %s" % o
                    if bool(o) != bool(exp):
                        bad.append("%s build: %s(%s: %r vs %r, tolerances %r) = %r, number-by-number conjunction = %r" % (
                            prof, name, ty, aa, bb, extra, bool(o), exp))
                        break
                if bad:
                    break
            if bad:
                break
        if bad:
            return True, path, "; ".join(bad[:2])
        return False, path, "model does not reproduce natively"

    what = ("%s on (%s, %s), base relations on f64 uninterpreted: the result holds exactly when the relation holds for every one of the "
            "%d corresponding pairs of numbers" % (name, ta, tb, na)) if same_shape else (
        "%s on values with different numbers of pieces/coefficients (%s vs %s) is false" % (name, ta, tb))
    e.prove(label, what + " (all %d short-circuit paths)" % len(paths), [], z3.And(*goals), dom_name="fp-uf", functions=funcs,
            witness_terms={"a0": A[0].t} if A else {"eps": EX[0].t}, role="approx-" + name, replay=replay,
            extra_bounds={"paths": len(paths), "numbers_per_value": na})
    return True


def type_pairs(tier):
    pairs = []
    for k in range(9):
        pairs.append(("P%d" % k, "P%d" % k))
    ks = range(9) if tier == "thorough" else (0, 2, 8)
    for k in ks:
        pairs.append(("LP%d" % k, "LP%d" % k))
        pairs.append(("IL%d" % k, "IL%d" % k))
    pairs.append(("ILP4", "ILP4"))
    for t in ("P0", "P1", "ILP4", "LP2", "IL2") + (("P8", "IL8") if tier == "thorough" else ()):
        pairs.append(("S" + t, "S" + t))
    for n in range(0, 4):
        for m in range(0, 4):
            pairs.append(("PN%d" % n, "PN%d" % m))
    inner = ("P0", "P1") + (("ILP4", "LP2") if tier == "thorough" else ())
    for t in inner:
        for n in range(0, 4):
            for m in range(0, 4):
                if t != "P0" and abs(n - m) > 1 and tier != "thorough":
                    continue
                pairs.append(("W%d:%s" % (n, t), "W%d:%s" % (m, t)))
    # larger lengths (short-circuit paths grow linearly; base relations are uninterpreted, so these stay cheap): a comparison that
    # looks at a prefix only, in blocks, or mishandles a length difference far from zero shows here
    big = [(8, 8), (9, 8), (16, 16), (17, 17), (17, 16), (33, 33), (64, 64), (65, 64)] + ([(128, 128), (257, 257), (257, 256)] if tier == "thorough" else [])
    for (n, m) in big:
        pairs.append(("W%d:P0" % n, "W%d:P0" % m))
        pairs.append(("PN%d" % n, "PN%d" % m))
    for (n, m) in [(8, 8), (17, 17), (33, 33)]:
        pairs.append(("W%d:P1" % n, "W%d:P1" % m))
    return pairs


def validate_concrete(e, seed):
    """translator validation: concrete runs of the approx impls through the interpreter vs native."""
    import random
    rnd = random.Random(seed)
    cases = []
    for (op, ta, tb) in [("absdiff", "P3", "P3"), ("releq", "P3", "P3"), ("absdiff", "ILP4", "ILP4"), ("releq", "IL2", "IL2"),
                         ("absdiff", "SP1", "SP1"), ("releq", "SILP4", "SILP4"), ("absdiff", "PN2", "PN3"), ("releq", "PN3", "PN3"),
                         ("absdiff", "W2:P0", "W2:P0"), ("releq", "W2:P1", "W3:P1"), ("absdiff", "W3:P1", "W3:P1"), ("releq", "LP2", "LP2")]:
        na, nb = api.type_len(ta), api.type_len(tb)
        for trial in range(4):
            a = [float(rnd.randint(-3, 3)) for _ in range(na)]
            b = list(a[:nb]) + [0.0] * max(0, nb - na)
            if trial % 2 and nb:
                b[rnd.randrange(nb)] += rnd.choice([1e-3, 0.5, 1e-13])
            extra = [rnd.choice([0.0, 1e-6, 0.1])] + ([rnd.choice([0.0, 1e-9, 0.2])] if op == "releq" else [])
            cases.append((op, ta, tb, a, b, extra))
    bad = None
    for (op, ta, tb, a, b, extra) in cases:
        req = native_request(op, ta, tb, a, b, extra)
        nat = e.native.run([req], "dev")[0]
        natr = e.native.run([req], "release")[0]
        dom = FPDomain()
        it = Interp(e.program, dom)
        ty = ta + "|" + tb
        fn, _, _ = api.build_call(e.program, op, ty, [dom.const(v) for v in a + b + extra])
        paths = it.explore(fn, lambda d: api.build_call(e.program, op, ty, [d.const(v) for v in a + b + extra])[1])
        got = paths[0].result if len(paths) == 1 else None
        if isinstance(nat, str) or got is None or bool(got) != bool(nat) or nat != natr:
            bad = "%s %s: interpreter %r, native %r/%r on %r %r %r" % (op, ty, got, nat, natr, a, b, extra)
            break
    if bad:
        e.rep.add(Obligation("selftest:approx", "E2-selftest", "interpreter reproduces the native approx impls", "inconclusive", detail=bad))
        return False
    e.rep.add(Obligation("selftest:approx", "E2-selftest",
                         "MIR interpreter with approx 0.5's scalar definitions reproduces the native abs_diff_eq/relative_eq of the crate's "
                         "types (dev and release) on %d concrete pairs" % len(cases), "discharged",
                         witness={"sample": [cases[1][0], cases[1][1], cases[1][3], cases[1][4], cases[1][5]]}))
    e.rep.self_tests["translator_validation_cases"] = len(cases)
    return True


def run(rep, tier):
    e = E2(rep, tier)
    rep.explanation = ("Every AbsDiffEq/RelativeEq impl in the MIR dump is executed symbolically with the f64 base relations as uninterpreted "
                       "predicates and approx's array/slice impls modelled by their contract (length check, short-circuit conjunction); z3 "
                       "proves result <=> conjunction over all corresponding numbers, and false for unequal lengths. A Kani harness anchors "
                       "the modelled contract on the real approx code.")
    rep.bounds = {"piecewise_segments": "0..3 each side", "PolyN_lengths": "0..3 each side",
                  "outside": "reflexivity/symmetry of approx's scalar relations themselves (dependency, lifted through the conjunction)"}
    rep.assumptions.append("approx 0.5 contract for [T;N], [T]: equal length and element-wise relation (anchored by the Kani harness c17::*)")
    if validate_concrete(e, rep.seed):
        found = 0
        for op in ("absdiff", "releq"):
            for (ta, tb) in type_pairs(tier):
                r = check_pair(e, op, ta, tb)
                if r:
                    found += 1
        wanted = [f for f in e.program.funcs if re.search(r"::(abs_diff_eq|relative_eq)$", f.name)]
        missed = [f.name for f in wanted if f.name not in rep.functions]
        rep.self_tests["approx_impls_in_mir"] = len(wanted)
        rep.self_tests["approx_impls_executed"] = len(wanted) - len(missed)
        for nm in missed:
            e.not_encoded("impl-coverage:" + nm, "approx impl present in the MIR dump is exercised", "no candidate type pair reached this impl")
    e.finish()
    try:
        from props.e1util import run_e1
        from props.c17_e1 import specs
        run_e1(rep, specs(tier))
    except ImportError:
        pass


def replay(path):
    if path.endswith(".rs"):
        from props.e1util import replay_cmd
        return replay_cmd(path)
    import json
    from engine import Native
    d = json.load(open(path))
    if not d.get("request"):
        print("no native request recorded")
        return 2
    nat = Native()
    op, ty, vals = d["request"]
    o = nat.run([(op, ty, vals)])[0]
    print("%s %s %r -> %r, expected %r" % (op, ty, vals, o, d["expected"]))
    return 0 if bool(o) == bool(d["expected"]) else 1
