"""C12 — evaluate_v equals pointwise evaluation on non-decreasing input, lazily and in order (engine E1)."""
from e1 import HarnessSpec
from props.e1util import run_e1, replay_cmd

LEVEL = "model_checking"
FUNCS = ["Piecewise::evaluate_v", "Piecewise::evaluate_v::{closure#0}", "<Piecewise<T> as Evaluate>::evaluate"]


def specs(tier):
    sizes = [("any", 1, 3), ("any", 2, 3), ("any", 3, 3), ("nondecr", 3, 3)]
    if tier == "thorough":
        sizes += [("any", 4, 4), ("any", 5, 3), ("nondecr", 4, 4)]
    out = []
    for kind, n, q in sizes:
        out.append(HarnessSpec(
            "c12::c12_%s_n%d_q%d" % (kind, n, q),
            "for all non-NaN non-decreasing ends[%d], piece ids and %s sequences of %d non-NaN f64 arguments: evaluate_v yields exactly "
            "%d outputs, the k-th after pulling exactly k inputs, each bit-identical to the value at x_k of the piece that direct "
            "evaluation selects for the running maximum of x_0..x_k%s" % (
                n, "arbitrary" if kind == "any" else "non-decreasing", q, q,
                " (= Piecewise::evaluate(x_k) itself)" if kind == "nondecr" else ""),
            FUNCS, {"segments": n, "arguments": q, "unwind": max(n, q) + 2}, timeout_s=400 if tier == "quick" else 1800, mem_gb=14,
            role="evaluate_v"))
    return out


def run(rep, tier):
    rep.explanation = "Bounded model checking of evaluate_v with a counting input iterator (laziness/order) against the running-maximum index rule."
    rep.bounds = {"(segments,arguments)": "up to (3,3) quick; (4,4),(5,3) thorough", "outside": "longer sequences / more segments"}
    run_e1(rep, specs(tier))
    from props import ctrl_obl
    from engine import E2
    e = E2(rep, tier)
    sizes = [(9, 3), (5, 4), (16, 3), (6, 5)] if tier == "quick" else [(9, 3), (5, 4), (16, 3), (6, 5), (16, 4), (32, 3), (8, 5)]
    rep.bounds["(segments,arguments)_mir"] = [list(x) for x in sizes]
    ctrl_obl.c12_obligations(e, [(2, 2), (3, 2)], real=False)
    e.finish()
    import parallel
    parallel.run_parts(rep, tier, ["ev:%d:%d" % (n, q) for (n, q) in sorted(sizes, key=lambda t: -(t[0] ** t[1]))],
                       mir_text=e.mir_text, sources=e.sources)


def run_part(rep, tier, part):
    from props import ctrl_obl
    from engine import E2
    _, n, q = part.split(":")
    e = E2(rep, tier)
    ctrl_obl.c12_obligations(e, [(int(n), int(q))], real=True)
    e.finish()


def replay(path):
    if path.endswith(".json"):
        from props.c02 import ctrl_replay
        return ctrl_replay(path)
    return replay_cmd(path)
