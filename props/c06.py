"""C06 — linear() interpolates the knots and forces breakpoints to be non-decreasing (engine E2 whole function + E1 structure)."""
import os
import sys
from fractions import Fraction

import z3

sys.path.insert(0, os.path.join(os.path.dirname(os.path.dirname(os.path.abspath(__file__))), "e2"))
import api
import splinelib as sl
import validate
from domains import FPDomain, RealDomain
from engine import E2, model_value, show
from interp import Unsupported, PathLimit, Struct
from common import Obligation

LEVEL = "proof"
FUNCS = ["linear", "linear::{closure#0}", "incr_linear", "linear::segment", "<Poly0 as HasIntegral>::indefinite",
         "<Poly1 as Evaluate>::evaluate", "<Poly1 as Translate>::translate"]
EPS = 2.220446049250313e-16
EPSQ = Fraction(EPS)


def concrete_linear_check(xs, ys, out):
    n = len(xs)
    if isinstance(out, str):
        return ["linear: " + out]
    if len(out) != 3 * (n - 1):
        return ["linear returned %d numbers for %d knots" % (len(out), n)]
    msgs = []
    X = [xs[0]]
    for i in range(1, n):
        X.append(max(X[-1], xs[i]))
    for i in range(n - 1):
        end, c0, c1 = out[3 * i:3 * i + 3]
        if not (end == X[i + 1]):
            msgs.append("segment %d: end %r is not the running maximum %r of the abscissae" % (i, end, X[i + 1]))
        if i > 0 and not (out[3 * (i - 1)] <= end):
            msgs.append("ends decrease at segment %d" % i)
        dx = X[i + 1] - X[i]  # binary64 subtraction, as in the code
        if dx != dx or c0 != c0 or c1 != c1:
            msgs.append("segment %d: NaN in output" % i)
            continue
        if dx < EPS:
            if not (c0 == ys[i] and c1 == 0.0):
                msgs.append("segment %d is narrower than machine epsilon but is not the constant y=%r: coefficients [%r, %r]" % (i, ys[i], c0, c1))
        else:
            XL, XR = Fraction(X[i]), Fraction(X[i + 1])
            pl = Fraction(c0) + Fraction(c1) * XL
            pr = Fraction(c0) + Fraction(c1) * XR
            cond = max(Fraction(1), max(abs(XL), abs(XR)) / (XR - XL))
            scale = max(abs(Fraction(ys[i])), abs(Fraction(ys[i + 1])), abs(Fraction(c1) * XL), abs(Fraction(c1) * XR), Fraction(1, 10 ** 300))
            tol = Fraction(1, 10 ** 10) * scale * cond
            if abs(pl - Fraction(ys[i])) > tol:
                msgs.append("segment %d misses its left knot: p(%r)=%s, y=%r" % (i, X[i], show(pl), ys[i]))
            if abs(pr - Fraction(ys[i + 1])) > tol:
                msgs.append("segment %d (width %r >= eps) misses its right knot: p(%r)=%s, y=%r" % (i, dx, X[i + 1], show(pr), ys[i + 1]))
    return msgs


def make_replay(e, n, xs, ys):
    def replay(model, ob):
        xv = [model_value(model, x) for x in xs]
        yv = [model_value(model, y) for y in ys]
        xv = [0.0 if v is None else float(v) for v in xv]
        yv = [0.0 if v is None else float(v) for v in yv]
        flat = []
        for a, b in zip(xv, yv):
            flat += [a, b]
        path = e.write_replay(ob.name, {"kind": "E2-native-linear", "requests": [["linear", "-", flat]],
                                        "statement": "C06: ends are the running max; wide segments pass through both knots, narrow ones are constant"})
        bad = []
        for prof in ("dev", "release"):
            o = e.native.run([("linear", "-", flat)], prof)[0]
            for m in concrete_linear_check(xv, yv, o):
                bad.append("%s build, knots %r: %s" % (prof, list(zip(xv, yv)), m))
        if bad:
            return True, path, "; ".join(bad[:3])
        return False, path, "model %r does not violate the concrete statement natively" % (list(zip(xv, yv)),)
    return replay


def exact_obligations(e, n):
    xs, ys = sl.rvars(n)
    wt = {("x%d" % i): xs[i] for i in range(n)}
    wt.update({("y%d" % i): ys[i] for i in range(n)})
    try:
        dom = RealDomain(False)
        res = sl.explore(e, "linear", n, dom)
    except (Unsupported, PathLimit) as ex:
        e.not_encoded("linear[n=%d]" % n, "whole-function encoding of linear", ex, FUNCS)
        return
    X = [xs[0]]
    for i in range(1, n):
        X.append(z3.If(xs[i] > X[-1], xs[i], X[-1]))
    eps = z3.Q(EPSQ.numerator, EPSQ.denominator)
    replay = make_replay(e, n, xs, ys)
    nice = [z3.And(v >= -4, v <= 4) for v in xs + ys]
    t = z3.Real("t")
    e.rep.self_tests["linear_paths_n%d" % n] = len(res)
    seen = {}
    for (p, segs) in res:
        assum = list(p.conds) + list(p.side)
        ok_shape = segs is not None and len(segs) == n - 1
        # Which side of the threshold each segment can be on along this path is asked of the solver (not read off the branch
        # polarity, which a refactor may flip): N = only narrower than eps, W = only at least eps wide, B = both possible.
        cls = []
        if ok_shape:
            for i in range(n - 1):
                width = X[i + 1] - X[i]
                rn, _, _ = e.check(assum + [width < eps], cap_ms=5000)
                rw, _, _ = e.check(assum + [width >= eps], cap_ms=5000)
                cls.append("N" if rw == z3.unsat else ("W" if rn == z3.unsat else "B"))
        key = "".join(cls) if ok_shape else "".join("1" if d else "0" for d in p.decisions)
        seen[key] = seen.get(key, 0) + 1
        tag = "linear[n=%d,path=%s%s]" % (n, key, "" if seen[key] == 1 else "#%d" % seen[key])
        if segs is None:
            e.prove(tag + ":no-panic", "linear does not panic on %d finite knots (%s)" % (n, p.panic), [], z3.Not(z3.And(*assum)) if assum else z3.BoolVal(False),
                    dom_name="real", functions=FUNCS, witness_terms=wt, role="linear-panic", replay=replay, prefer=nice)
            continue
        if len(segs) != n - 1:
            e.prove(tag + ":segments", "one segment per consecutive knot pair", assum, z3.BoolVal(False), dom_name="real", functions=FUNCS,
                    witness_terms=wt, role="linear-segments", replay=replay, prefer=nice)
            continue
        if p.nonzero:
            e.prove_cases(tag + ":divisors-nonzero", "no divisor is zero on this path (wide segments have width >= eps > 0; each divisor "
                          "under the path condition and the quotients defined before it)", list(p.conds),
                          sl.divisor_cases(p), dom_name="real", functions=FUNCS, witness_terms=wt,
                    role="linear-division-by-zero", replay=replay, prefer=nice)
        for i in range(n - 1):
            end, cs = segs[i]
            c0, c1 = cs[0].t, cs[1].t
            e.prove("%s:end%d" % (tag, i), "segment %d ends at the running maximum of the abscissae x0..x%d" % (i, i + 1),
                    assum, end.t == X[i + 1], dom_name="real", functions=FUNCS, witness_terms=wt, role="linear-end", replay=replay, prefer=nice)
            width = X[i + 1] - X[i]
            if cls[i] in ("N", "B"):
                e.prove("%s:constant%d" % (tag, i), "whenever segment %d is narrower than machine epsilon (forced width X%d-X%d < eps) it is the "
                        "constant y%d: coefficients [y%d, 0]" % (i, i + 1, i, i, i),
                        assum + [width < eps], z3.And(c0 == ys[i], c1 == 0), dom_name="real", functions=FUNCS, witness_terms=wt,
                        role="linear-narrow", replay=replay, prefer=nice)
            if cls[i] in ("W", "B"):
                e.prove("%s:interpolant%d" % (tag, i),
                        "exact arithmetic: whenever segment %d is at least machine epsilon wide (X%d-X%d >= eps) it passes through its forced "
                        "left knot and its right knot, and for every real t equals the straight-line interpolant "
                        "y%d + (y%d-y%d)(t-X%d)/(X%d-X%d)" % (i, i + 1, i, i, i + 1, i, i, i + 1, i),
                        assum + [width >= eps],
                        z3.And(c0 + c1 * X[i] == ys[i], c0 + c1 * X[i + 1] == ys[i + 1],
                               (c0 + c1 * t) * (X[i + 1] - X[i]) == ys[i] * (X[i + 1] - X[i]) + (ys[i + 1] - ys[i]) * (t - X[i])),
                        dom_name="real", functions=FUNCS, witness_terms=wt, role="linear-interpolant", replay=replay, prefer=nice)


def fp_obligations(e, n):
    xs, ys = sl.fvars(n)
    F = z3.Float64()
    try:
        dom = FPDomain()
        res = sl.explore(e, "linear", n, dom)
    except (Unsupported, PathLimit) as ex:
        e.not_encoded("linear-fp[n=%d]" % n, "bit-precise whole-function encoding of linear", ex, FUNCS)
        return
    fin = [z3.And(z3.Not(z3.fpIsNaN(v)), z3.Not(z3.fpIsInf(v))) for v in xs + ys]
    X = [xs[0]]
    for i in range(1, n):
        X.append(z3.If(z3.fpGT(xs[i], X[-1]), xs[i], X[-1]))
    wt = {("x%d" % i): xs[i] for i in range(n)}
    replay = make_replay(e, n, xs, ys)
    nice = [z3.And(z3.fpLEQ(v, z3.FPVal(4.0, F)), z3.fpGEQ(v, z3.FPVal(-4.0, F))) for v in xs + ys]
    zero = z3.FPVal(0.0, F)
    xq = z3.FP("xq", F)
    seen = {}
    epsv = z3.FPVal(EPS, F)
    for (p, segs) in res:
        assum = fin + list(p.conds)
        rc0, _, _ = e.check(assum, cap_ms=5000)
        if rc0 == z3.unsat:
            continue  # not a path of the function on finite knots (e.g. the NaN arm of a partial_cmp match)
        ok_shape = segs is not None and len(segs) == n - 1
        cls, widths = [], []
        if ok_shape:
            for i in range(n - 1):
                # forced width in terms of the returned ends (equal to the running maxima by the ":ends" obligation below), so the
                # term is the code's own `dx` and the slope quotient below is the code's own quotient
                left = xs[0] if i == 0 else segs[i - 1][0].t
                w = z3.fpSub(z3.RNE(), segs[i][0].t, left)
                widths.append(w)
                rn, _, _ = e.check(assum + [z3.fpLT(w, epsv)], cap_ms=10000)
                rw, _, _ = e.check(assum + [z3.fpGEQ(w, epsv)], cap_ms=10000)
                cls.append("N" if rw == z3.unsat else ("W" if rn == z3.unsat else "B"))
        key = "".join(cls) if ok_shape else "".join("1" if d else "0" for d in p.decisions)
        seen[key] = seen.get(key, 0) + 1
        tag = "linear-fp[n=%d,path=%s%s]" % (n, key, "" if seen[key] == 1 else "#%d" % seen[key])
        if not ok_shape:
            e.prove(tag + ":shape", "no panic and n-1 segments for finite knots", fin, z3.Not(z3.And(*p.conds)) if p.conds else z3.BoolVal(False),
                    dom_name="fp", functions=FUNCS, witness_terms=wt, role="linear-panic", replay=replay, prefer=nice)
            continue
        goals = []
        for i in range(n - 1):
            goals.append(z3.fpEQ(segs[i][0].t, X[i + 1]))
            if i:
                goals.append(z3.fpLEQ(segs[i - 1][0].t, segs[i][0].t))
        e.prove(tag + ":ends", "bit-precise, all finite binary64 knots: every end equals the running maximum of the abscissae and ends are non-decreasing",
                assum, z3.And(*goals), dom_name="fp", functions=FUNCS, witness_terms=wt, role="linear-end", replay=replay, prefer=nice)
        for i in range(n - 1):
            c0, c1 = segs[i][1][0], segs[i][1][1]
            if cls[i] in ("N", "B"):
                val = dom.fma(c1, dom.sym("xq"), c0)  # Poly1::evaluate is c1.mul_add(x, c0) -- checked against the MIR by C01
                e.prove("%s:constant%d" % (tag, i),
                        "bit-precise: whenever the forced width end[%d]-end[%d] (binary64 subtraction; end[-1]=x0) is below machine epsilon, "
                        "segment %d has coefficients [y%d, 0] and evaluates to y%d at every finite x" % (i, i - 1, i, i, i),
                        assum + [z3.fpLT(widths[i], epsv), z3.Not(z3.fpIsNaN(xq)), z3.Not(z3.fpIsInf(xq))],
                        z3.And(z3.fpEQ(c0.t, ys[i]), z3.fpEQ(c1.t, zero), z3.fpEQ(val.t, ys[i])),
                        dom_name="fp", functions=FUNCS, witness_terms=wt, role="linear-narrow", replay=replay, prefer=nice)
            if cls[i] in ("W", "B"):
                # A segment at least eps wide must not be the flat one.  The code's slope is the quotient (y[i+1]-y[i])/width; that
                # one division term is abstracted by a variable Q that is not zero (justified by the magnitude assumptions below:
                # a finite numerator of magnitude >= 2^-500 over a positive width <= 2^500 does not round to zero), because
                # bit-blasting a binary64 divider does not finish within the cap.  Any other arithmetic stays bit-precise.
                RNE = z3.RNE()
                dy = z3.fpSub(RNE, ys[i + 1], ys[i])
                quot = z3.fpDiv(RNE, dy, widths[i])
                Q = z3.FP("Q%d" % i, F)
                c1a = z3.substitute(c1.t, (quot, Q))
                big, small = z3.FPVal(2.0 ** 500, F), z3.FPVal(2.0 ** -500, F)
                e.prove("%s:sloped%d" % (tag, i),
                        "bit-precise: whenever the forced width end[%d]-end[%d] is at least machine epsilon (and at most 2^500) and "
                        "2^-500 <= |y%d-y%d| <= 2^500, segment %d is not constant: its slope, with the quotient (y%d-y%d)/width taken as a "
                        "non-zero number, is not zero" % (i, i - 1, i + 1, i, i, i + 1, i),
                        assum + [z3.fpGEQ(widths[i], epsv), z3.fpLEQ(widths[i], big), z3.fpGEQ(z3.fpAbs(dy), small),
                                 z3.fpLEQ(z3.fpAbs(dy), big), z3.Not(z3.fpIsZero(Q)), z3.Not(z3.fpIsNaN(Q))],
                        z3.Not(z3.fpEQ(c1a, zero)),
                        dom_name="fp", functions=FUNCS, witness_terms=wt, role="linear-threshold", replay=replay, prefer=nice)


def rounding_left_knot(e):
    """kernel linear::segment, wide branch: |p(x0)-y0| <= 4u(|y0| + |slope*x0|)."""
    funcs = ["linear::segment"]
    try:
        dom = RealDomain(True)
        it = e.interp(dom)
        fn = e.program.find_kernel("linear::segment", "linear", ["Knot", "Knot"], "Poly1")
        funcs = [fn.name]

        def mk(d):
            return [Struct("Knot", [d.sym("x0"), d.sym("y0")]), Struct("Knot", [d.sym("x1"), d.sym("y1")])]
        # the sloped path is recognised by its result (a symbolic slope), not by the polarity of the code's branch
        paths = [p for p in it.explore(fn, mk) if p.panic is None and api.flat(p.result.fields[1])[1].conc is None]
        p = paths[0]
        c0, c1 = [t.t for t in api.flat(p.result.fields[1])]
    except Exception as ex:
        e.not_encoded("linear::segment:left-knot-rounding", "left-knot residual bound", ex, funcs)
        return
    x0, y0, S = z3.Real("x0"), z3.Real("y0"), z3.Real("S")
    c0f = z3.substitute(c0, (c1, S))
    left = [v for v in z3.z3util.get_vars(c0f) if str(v) in ("x1", "y1") or str(v).startswith("q!")]
    if left:
        e.not_encoded("linear::segment:left-knot-rounding", "left-knot residual bound", "could not isolate the slope in c0 (%s)" % left, funcs)
        return
    Res = c0f + S * x0 - y0
    deltas = [v for v in z3.z3util.get_vars(Res) if str(v).startswith("d!")]
    dbounds = [z3.And(d >= -dom.u, d <= dom.u) for d in deltas]
    lanes = [z3.substitute(Res, (S, z3.RealVal(0))), z3.substitute(Res, (y0, z3.RealVal(0)))]
    e.prove("linear::segment:left-knot-linearity", "rounding model: residual p_d(x0)-y0 is the sum of its (y0, slope) lanes", [],
            Res == lanes[0] + lanes[1], dom_name="real-delta", functions=funcs, witness_terms={"x0": x0}, role="linear-left-knot-rounding")
    G0 = z3.simplify(z3.substitute(lanes[0], (y0, z3.RealVal(1))))
    G1 = z3.simplify(z3.substitute(lanes[1], (S, z3.RealVal(1)), (x0, z3.RealVal(1))))
    e.prove("linear::segment:left-knot-shape", "lanes are y0*G0(d) and slope*x0*G1(d)", [],
            z3.And(lanes[0] == y0 * G0, lanes[1] == S * x0 * G1), dom_name="real-delta", functions=funcs, witness_terms={"x0": x0},
            role="linear-left-knot-rounding")
    e.prove("linear::segment:left-knot-bound", "for all |d|<=2^-53: |G0|,|G1| <= 4*2^-53, i.e. |p(x0)-y0| <= 4u(|y0|+|slope*x0|)", dbounds,
            z3.And(G0 <= 4 * dom.u, -G0 <= 4 * dom.u, G1 <= 4 * dom.u, -G1 <= 4 * dom.u), dom_name="real-delta", functions=funcs,
            witness_terms={str(d): d for d in deltas[:3]}, role="linear-left-knot-rounding")
    e.expect_sat("linear::segment:left-knot-tightness", "tightness twin: |G1| can exceed 1.5u", dbounds + [z3.Or(G1 > z3.Q(3, 2) * dom.u, -G1 > z3.Q(3, 2) * dom.u)],
                 dom_name="real-delta", functions=funcs)


def validate_linear(e, seed):
    import random
    rnd = random.Random(seed)
    cases = [[0.0, 0.0, 1.0, 1.0, 2.0, 2.0, 3.0, 3.0],
             [7.807257773555076e-2, 0.9738453165629335, 0.6947124479037923, 0.35869674342227553,
              0.6844348417809908, 0.8995724066083576, 0.7267839023721823, 0.6997825656440388],
             [-7.679272597449861e18, 1.930746322207704e18, 6.358929964150921e18, -7.235865377340728e18,
              1.3625011620979218e18, 7.384377884237804e18, 7.408886893918922e18, -6.623845605108912e18],
             [1.0, 2.0, 1.0 + EPS, 3.0, 1.0 + 2 * EPS, 5.0], [1.0, 2.0, 1.0, 3.0]]
    for n in (2, 3, 5):
        for _ in range(3):
            c = []
            for _ in range(n):
                c += [rnd.uniform(-3, 3), rnd.uniform(-3, 3)]
            cases.append(c)
    bad = None
    for c in cases:
        nat = e.native.run([("linear", "-", c)], "dev")[0]
        natr = e.native.run([("linear", "-", c)], "release")[0]
        dom = FPDomain()
        res = api.run(e, dom, "linear", "-", lambda d: [d.const(v) for v in c])
        got = [x.conc for x in res[0][1]] if res and res[0][1] is not None else None
        if isinstance(nat, str) or got is None or len(got) != len(nat) or not all(
                validate.same_bits(a, b) for a, b in zip(got, nat)) or not all(validate.same_bits(a, b) for a, b in zip(nat, natr)):
            bad = "linear(%r): interpreter %r, native %r / %r" % (c, got, nat, natr)
            break
    if bad:
        e.rep.add(Obligation("selftest:linear", "E2-selftest", "interpreter reproduces native linear bit for bit", "inconclusive", detail=bad))
        return False
    e.rep.add(Obligation("selftest:linear", "E2-selftest",
                         "MIR interpreter reproduces native linear() (dev and release) bit for bit on %d knot sets (repo test vectors, "
                         "epsilon-wide gaps, seeded random)" % len(cases), "discharged", witness={"sample_knots": cases[1]}))
    e.rep.self_tests["translator_validation_cases"] = e.rep.self_tests.get("translator_validation_cases", 0) + len(cases)
    return True


def run(rep, tier):
    e = E2(rep, tier)
    ns = [2, 3, 4] if tier == "quick" else [2, 3, 4, 5]
    nfp = [2, 3] if tier == "quick" else [2, 3, 4]
    rep.explanation = ("linear() executed symbolically as a whole from MIR (cloned iterator, map closure, incr_linear, segment) per knot "
                       "count; for every narrow/wide branch pattern z3 proves running-max ends, the epsilon threshold, constant narrow "
                       "segments and the straight-line interpolant for every real t (exact arithmetic), ends/constancy bit-precisely in "
                       "FP, and the left-knot rounding bound per monomial.")
    rep.bounds = {"knots_exact": ns, "knots_fp": nfp, "outside": "more knots; right-knot rounding bound (conditioning |x|/dx) not decided"}
    if validate_linear(e, rep.seed):
        for n in ns:
            exact_obligations(e, n)
        for n in nfp:
            fp_obligations(e, n)
        rounding_left_knot(e)
    e.finish()
    # larger knot counts (exact arithmetic) as parallel parts: a rule that only goes wrong from the 5th knot on (blocks, windows,
    # a cache that is refreshed every k knots) is outside n <= 4
    big = [5, 6, 8] if tier == "quick" else [5, 6, 8, 10]
    rep.bounds["knots_exact_parts"] = big
    import parallel
    parallel.run_parts(rep, tier, ["exact:%d" % n for n in sorted(big, reverse=True)], mir_text=e.mir_text, sources=e.sources)
    try:
        from props.e1util import run_e1
        from props.c16 import linear_structure_specs
        run_e1(rep, linear_structure_specs(tier))
    except ImportError:
        pass


def run_part(rep, tier, part):
    _, n = part.split(":")
    e = E2(rep, tier)
    exact_obligations(e, int(n))
    e.finish()


def replay(path):
    if path.endswith(".rs"):
        from props.e1util import replay_cmd
        return replay_cmd(path)
    import json
    from engine import Native
    d = json.load(open(path))
    nat = Native()
    bad = 0
    for (op, ty, vals) in d["requests"]:
        xs, ys = vals[0::2], vals[1::2]
        for prof in ("dev", "release"):
            o = nat.run([(op, ty, vals)], prof)[0]
            print("%s build: linear(%r) -> %r" % (prof, list(zip(xs, ys)), o))
            for m in concrete_linear_check(xs, ys, o):
                print("   violates: " + m)
                bad = 1
    return bad
