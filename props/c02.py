"""C02 — Piecewise::evaluate selects the half-open segment containing x (engine E1)."""
from e1 import HarnessSpec
from props.e1util import run_e1, replay_cmd

LEVEL = "model_checking"
FUNCS = ["<Piecewise<T> as Evaluate>::evaluate (src/piecewise.rs)", "<Segment<T> as Evaluate>::evaluate"]


def specs(tier):
    ns = [1, 2, 3, 4] if tier == "quick" else [1, 2, 3, 4, 5, 6]
    out = []
    for n in ns:
        out.append(HarnessSpec(
            "c02::c02_probe_n%d" % n,
            "for all non-NaN non-decreasing ends[%d] (any f64 incl. duplicates, +-inf, +-0, subnormals), all piece "
            "ids and all non-NaN x: Piecewise<Probe>::evaluate(x) is bit-identical to the value at x of the first "
            "piece whose end > x, else of the last piece" % n,
            FUNCS, {"segments": n, "unwind": n + 2, "x": "any non-NaN f64", "ends": "any non-NaN non-decreasing f64"},
            timeout_s=300, role="segment-selection"))
    out.append(HarnessSpec(
        "c02::c02_poly0_n3", "same claim with the real piece type Poly0, 3 segments",
        FUNCS + ["<Poly0 as Evaluate>::evaluate"], {"segments": 3, "unwind": 5}, timeout_s=300,
        role="segment-selection"))
    return out


def run(rep, tier):
    rep.explanation = ("Bounded model checking (Kani/CBMC) of Piecewise::evaluate over fully symbolic f64 ends and "
                       "argument for each concrete segment count; oracle = the property's own index rule.")
    rep.bounds = {"segments": "1..4 (quick) / 1..6 (thorough)", "outside": "more than 6 segments (no induction claimed)"}
    run_e1(rep, specs(tier))


def replay(path):
    return replay_cmd(path)
