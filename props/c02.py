"""C02 — Piecewise::evaluate selects the half-open segment containing x (engine E1)."""
from e1 import HarnessSpec
from props.e1util import run_e1, replay_cmd

LEVEL = "model_checking"
FUNCS = ["<Piecewise<T> as Evaluate>::evaluate (src/piecewise.rs)", "<Segment<T> as Evaluate>::evaluate"]


def specs(tier):
    ns = [1, 2, 3, 4] if tier == "quick" else [1, 2, 3, 4, 5, 6]
    out = []
    for n in ns:
        out.append(HarnessSpec(
            "c02::c02_probe_n%d" % n,
            "for all non-NaN non-decreasing ends[%d] (any f64 incl. duplicates, +-inf, +-0, subnormals), all piece "
            "ids and all non-NaN x: Piecewise<Probe>::evaluate(x) is bit-identical to the value at x of the first "
            "piece whose end > x, else of the last piece" % n,
            FUNCS, {"segments": n, "unwind": n + 2, "x": "any non-NaN f64", "ends": "any non-NaN non-decreasing f64"},
            timeout_s=300, role="segment-selection"))
    out.append(HarnessSpec(
        "c02::c02_poly0_n3", "same claim with the real piece type Poly0, 3 segments",
        FUNCS + ["<Poly0 as Evaluate>::evaluate"], {"segments": 3, "unwind": 5}, timeout_s=300,
        role="segment-selection"))
    return out


def run(rep, tier):
    rep.explanation = ("Bounded model checking (Kani/CBMC) of Piecewise::evaluate over fully symbolic f64 ends and "
                       "argument for each concrete segment count; oracle = the property's own index rule.")
    rep.bounds = {"segments": "1..4 (quick) / 1..6 (thorough)", "outside": "more than 6 segments (no induction claimed)"}
    run_e1(rep, specs(tier))
    # E2: the same claim from the MIR for segment counts far beyond CBMC's reach (see e2/ctrl.py)
    from props import ctrl_obl
    from engine import E2
    e = E2(rep, tier)
    sizes = [1, 2, 3, 5, 8, 16, 17, 32, 33, 64, 65] + ([100, 128, 129, 200, 256, 257] if tier == "thorough" else [])
    rep.bounds["segments_mir"] = sizes
    ctrl_obl.c02_obligations(e, sizes, real=True)
    ctrl_obl.c02_obligations(e, [1, 2, 3, 4], real=False)
    e.finish()


def replay(path):
    if path.endswith(".json"):
        return ctrl_replay(path)
    return replay_cmd(path)


def ctrl_replay(path):
    import json, sys, os
    sys.path.insert(0, os.path.join(os.path.dirname(os.path.dirname(os.path.abspath(__file__))), "e2"))
    from engine import Native
    d = json.load(open(path))
    op, ty, vals = d["request"]
    nat = Native()
    for prof in ("dev", "release"):
        print("%s build: %s %s %r -> %r   (%s)" % (prof, op, ty, vals, nat.run([(op, ty, vals)], prof)[0], d.get("statement")))
    return 1
