#!/bin/sh
# Usage: lib/try_refactor.sh <worktree with patch.diff> <check ids...>: property-preserving change: checks must not print VIOLATION
export VERIF_EVIDENCE_DIR=/verif/build/evidence_scratch; mkdir -p $VERIF_EVIDENCE_DIR
WT=$1; shift
cd "$WT" && git checkout -- src 2>/dev/null; git apply patch.diff || { echo "patch does not apply in worktree"; exit 9; }
T=$(CARGO_TARGET_DIR=$WT/target cargo test --offline --lib 2>&1 | grep "test result" | head -1); echo "existing tests with patch: $T"
cd /verif
git -C /repo apply "$WT/patch.diff" || { echo "patch does not apply to /repo"; exit 9; }
for c in "$@"; do
  ./check $c > build/ref_$c.out 2> build/ref_$c.err; rc=$?
  echo "check $c rc=$rc: $(grep -c '^VIOLATION' build/ref_$c.out) violation line(s); $(tail -1 build/ref_$c.err | cut -c1-200)"
  grep '^VIOLATION' build/ref_$c.out | head -2
  grep -E 'what:|INCONCL' build/ref_$c.err | cut -c1-300 | head -4
done
git -C /repo checkout -- .
