"""Run parts of a check in parallel subprocesses and merge their reports.

A property module opts in with
    def run_part(rep, tier, part): ...        # adds obligations for that part to rep
The parent calls run_parts(rep, tier, [part, ...]); each part runs as `./check <ID> --tier T --part P --part-out F`,
writes its partial report as JSON, and the parent merges obligations, violations, functions, self-test counters.
The MIR dump is taken once by the parent and handed to the parts through VERIF_MIR_FILE (same working tree, same run).
"""
import json
import os
import subprocess
import sys
import tempfile
import time

from common import BUILD, VERIF, NCPU, Obligation, Violation, log


def dump_report(rep, path):
    obs = []
    for o in rep.obligations:
        d = o.to_json()
        d["role"] = o.role
        d["witness"] = o.witness
        obs.append(d)
    out = {
        "obligations": obs,
        "violations": [{"ob": v.obligation.name, "replay_path": v.replay_path, "what": v.what, "key": v.key} for v in rep.violations],
        "unreplayed": [{"ob": o.name, "reason": r} for (o, r) in rep.unreplayed],
        "functions": sorted(rep.functions),
        "self_tests": rep.self_tests,
        "assumptions": rep.assumptions,
        "trusted_base": rep.trusted_base,
        "notes": rep.notes,
    }
    with open(path, "w") as f:
        json.dump(out, f, default=str)


def merge_report(rep, d):
    by_name = {}
    for od in d["obligations"]:
        ob = Obligation(od["name"], od["engine"], od["claim"], od["status"], od.get("solver_s", 0.0), detail=od.get("detail"),
                        model=od.get("model"), functions=od.get("functions"), bounds=od.get("bounds"), witness=od.get("witness"),
                        role=od.get("role"))
        rep.add(ob)
        by_name[ob.name] = ob
    for v in d["violations"]:
        ob = by_name.get(v["ob"])
        rep.violations.append(Violation(rep.prop, ob, v["replay_path"], v["what"], v["key"]))
    for u in d["unreplayed"]:
        if u["ob"] in by_name:
            rep.unreplayed.append((by_name[u["ob"]], u["reason"]))
    rep.functions.update(d.get("functions", []))
    for k, v in d.get("self_tests", {}).items():
        cur = rep.self_tests.get(k)
        if isinstance(v, int) and isinstance(cur, int):
            rep.self_tests[k] = cur + v
        elif isinstance(v, list) and isinstance(cur, list):
            rep.self_tests[k] = sorted(set(map(str, cur)) | set(map(str, v)))
        elif cur is None:
            rep.self_tests[k] = v
    for key in ("assumptions", "trusted_base", "notes"):
        tgt = getattr(rep, key)
        for x in d.get(key, []):
            if x not in tgt:
                tgt.append(x)


def run_parts(rep, tier, parts, max_workers=None, timeout_s=None, mir_text=None, sources=None):
    if not parts:
        return
    if timeout_s is None:
        # a part that does not finish is reported as inconclusive, never waited for indefinitely (changed code can blow up
        # the number of paths of a control encoding)
        timeout_s = 900 if tier == "quick" else 3600
    max_workers = max_workers or max(1, min(NCPU - 2, 14))
    os.makedirs(BUILD, exist_ok=True)
    env = dict(os.environ)
    tmpd = tempfile.mkdtemp(prefix="parts_%s_" % rep.prop, dir=BUILD)
    if mir_text is not None:
        mf = os.path.join(tmpd, "mir.json")
        with open(mf, "w") as f:
            json.dump({"mir": mir_text, "sources": sources or {}}, f)
        env["VERIF_MIR_FILE"] = mf
    pending = list(enumerate(parts))
    running = []
    t0 = time.time()
    results = {}
    while pending or running:
        while pending and len(running) < max_workers:
            i, part = pending.pop(0)
            out = os.path.join(tmpd, "part_%d.json" % i)
            lf = open(os.path.join(tmpd, "part_%d.log" % i), "w")
            p = subprocess.Popen([sys.executable, os.path.join(VERIF, "check"), rep.prop, "--tier", tier, "--part", part, "--part-out", out],
                                 cwd=VERIF, env=env, stdout=lf, stderr=subprocess.STDOUT)
            running.append((i, part, p, out, lf, time.time()))
        still = []
        for (i, part, p, out, lf, ts) in running:
            rc = p.poll()
            if rc is None:
                if time.time() - ts > timeout_s:
                    p.kill()
                    results[i] = (part, None, "timeout after %ds" % timeout_s)
                    lf.close()
                else:
                    still.append((i, part, p, out, lf, ts))
                continue
            lf.close()
            if os.path.exists(out):
                with open(out) as f:
                    results[i] = (part, json.load(f), None)
            else:
                with open(os.path.join(tmpd, "part_%d.log" % i), errors="replace") as f:
                    results[i] = (part, None, "part exited with %s: %s" % (rc, f.read()[-600:]))
        running = still
        if running:
            time.sleep(0.2)
    for i in sorted(results):
        part, d, err = results[i]
        if d is None:
            rep.add(Obligation("part:" + part, "framework", "this part of the check ran to completion", "inconclusive", detail=err))
        else:
            merge_report(rep, d)
    log("[parts] %d parts of %s in %.1fs on %d workers" % (len(parts), rep.prop, time.time() - t0, max_workers))
    try:
        import shutil
        shutil.rmtree(tmpd, ignore_errors=True)
    except Exception:
        pass
