#!/usr/bin/env python3
"""keep_seed.py <seed-id> <worktree> <property> <detected-by (comma list or 'MISSED')> <needs...>
Copies patch.diff, the demonstration and MUTATION.md into /verif/seeded/<seed-id>/ and writes meta.json."""
import json, os, shutil, sys
sid, wt, prop, detected = sys.argv[1:5]
needs = " ".join(sys.argv[5:])
d = os.path.join(os.path.dirname(os.path.dirname(os.path.abspath(__file__))), "seeded", sid)
os.makedirs(d, exist_ok=True)
shutil.copy(os.path.join(wt, "patch.diff"), os.path.join(d, "patch.diff"))
for f in ("tests/demo_seed.rs", "MUTATION.md"):
    p = os.path.join(wt, f)
    if os.path.exists(p):
        shutil.copy(p, os.path.join(d, os.path.basename(f)))
meta = {
    "seed": sid,
    "breaks_property": prop,
    "needs_to_manifest": needs,
    "origin": "independent sub-agent given only the property text and a scratch worktree of /repo",
    "confirmed": {
        "existing_tests_pass_with_patch": True,
        "demo_fails_with_patch": True,
        "demo_passes_without_patch": True,
        "how": "lib/try_seed.sh <worktree> <checks>: cargo test --offline --lib (94 pass) ; cargo test --offline --test demo_seed with and without the patch; then git -C /repo apply patch.diff ; ./check <id> ; git -C /repo checkout -- .",
    },
    "detected_by": [] if detected == "MISSED" else detected.split(","),
}
json.dump(meta, open(os.path.join(d, "meta.json"), "w"), indent=1)
print("kept", d)
