"""Shared plumbing for the /verif checks: results, evidence, known findings, exit codes.

Exit-code protocol (DESIGN.md §3):
  0  every obligation inside the tier's bound was discharged (KNOWN-FINDING lines allowed)
  1  a violation was found AND reproduced natively against the real crate
  2  inconclusive (time-out, out-of-memory, solver disagreement, encoder self-test
     failure, counterexample that does not reproduce)
"""
import json
import os
import sys
import time

VERIF = os.path.dirname(os.path.dirname(os.path.abspath(__file__)))
REPO = os.environ.get("VERIF_REPO", "/repo")
BUILD = os.environ.get("VERIF_BUILD", os.path.join(VERIF, "build"))  # override only for development runs side by side
# development runs against a deliberately patched /repo (seeds, refactors) write their evidence elsewhere, so that
# /verif/evidence always holds what the registered commands produced on the unchanged tree
EVIDENCE_DIR = os.environ.get("VERIF_EVIDENCE_DIR") or os.path.join(VERIF, "evidence")
REPLAY_DIR = os.path.join(VERIF, "replays")
KNOWN_FINDINGS = os.path.join(VERIF, "known_findings.json")
NCPU = int(os.environ.get("VERIF_JOBS", str(os.cpu_count() or 4)))


def log(*a):
    print(*a, file=sys.stderr, flush=True)


class Obligation:
    """One unit of solver work: an SMT query or a Kani harness.

    status: 'discharged' | 'violated' | 'inconclusive' | 'not_encoded'
    """

    def __init__(self, name, engine, what, status, solver_s=0.0, detail=None, model=None,
                 functions=None, bounds=None, witness=None, role=None):
        self.name = name
        self.engine = engine  # 'E1-kani' | 'E2-z3-fp' | 'E2-z3-real'
        self.what = what  # human description of the claim decided
        self.status = status
        self.solver_s = solver_s
        self.detail = detail  # free text (failed checks, reason for inconclusive, ...)
        self.model = model  # counterexample (dict) when violated
        self.functions = functions or []
        self.bounds = bounds
        self.witness = witness  # vacuity witness (model of assumptions / satisfied covers)
        self.role = role  # key used to match known findings

    def to_json(self):
        d = {
            "name": self.name,
            "engine": self.engine,
            "claim": self.what,
            "status": self.status,
            "solver_s": round(self.solver_s, 3),
        }
        if self.detail:
            d["detail"] = self.detail
        if self.model is not None:
            d["model"] = self.model
        if self.functions:
            d["functions"] = self.functions
        if self.bounds:
            d["bounds"] = self.bounds
        if self.witness is not None:
            d["vacuity_witness"] = self.witness
        return d


class Violation:
    def __init__(self, prop, obligation, replay_path, what, key):
        self.prop = prop
        self.obligation = obligation
        self.replay_path = replay_path
        self.what = what
        self.key = key  # role key for known-findings matching


def load_known_findings():
    if not os.path.exists(KNOWN_FINDINGS):
        return {"known": [], "fixed": []}
    with open(KNOWN_FINDINGS) as f:
        return json.load(f)


class Report:
    """Collects obligations for one property run and writes the evidence file."""

    def __init__(self, prop, tier, level, seed):
        self.prop = prop
        self.tier = tier
        self.level = level
        self.seed = seed
        self.t0 = time.time()
        self.obligations = []
        self.violations = []  # Violation objects (replayed natively)
        self.unreplayed = []  # (obligation, reason)
        self.assumptions = []
        self.functions = set()
        self.bounds = {}
        self.trusted_base = []
        self.notes = []
        self.self_tests = {}
        self.checker_cmd = ""
        self.explanation = ""
        self.rule = ""

    def add(self, ob):
        self.obligations.append(ob)
        for f in ob.functions:
            self.functions.add(f)
        return ob

    def extend(self, obs):
        for o in obs:
            self.add(o)

    def finish(self):
        known = load_known_findings()
        known_keys = {}
        for k in known.get("known", []):
            if k.get("property") == self.prop:
                known_keys[k["key"]] = k
        n_total = len(self.obligations)
        n_dis = sum(1 for o in self.obligations if o.status == "discharged")
        n_viol = sum(1 for o in self.obligations if o.status == "violated")
        n_inc = sum(1 for o in self.obligations if o.status in ("inconclusive", "not_encoded"))
        new_violations = []
        known_hits = []
        seen_keys = set()
        for v in self.violations:
            if v.key in seen_keys:
                continue  # one report per role; the other obligations of the role are listed in the evidence
            seen_keys.add(v.key)
            if v.key in known_keys:
                known_hits.append(v)
            else:
                new_violations.append(v)
        samples = []
        for o in self.obligations:
            if len(samples) >= 12:
                break
            if o.witness is not None or o.model is not None:
                samples.append({"obligation": o.name, "claim": o.what,
                                "witness": o.witness if o.witness is not None else o.model})
        if not samples:
            samples = [{"obligation": o.name, "claim": o.what} for o in self.obligations[:5]]
        nontrivial = sum(1 for o in self.obligations
                         if o.status == "discharged" and o.witness is not None)
        wall = time.time() - self.t0
        solver_s = sum(o.solver_s for o in self.obligations)
        cov = {
            "obligations": n_total,
            "discharged": n_dis,
            "violated": n_viol,
            "inconclusive_or_not_encoded": n_inc,
            "checker_cmd": self.checker_cmd or ("./check %s --tier %s" % (self.prop, self.tier)),
            "trusted_base": self.trusted_base,
            "evaluations": n_total,
            "distinct_nontrivial": nontrivial,
            "rule": self.rule or ("one evaluation = one solver-decided obligation (SMT query or Kani "
                                  "harness) over symbolic inputs; it counts as non-trivial when it was "
                                  "discharged AND its vacuity witness (model of the assumptions alone / "
                                  "all reachability covers satisfied / tightness twin sat) was obtained; "
                                  "names are distinct by construction"),
            "samples": samples,
            "explanation": self.explanation,
            "functions_encoded": sorted(self.functions),
            "bounds": self.bounds,
            "solver_time_s": round(solver_s, 3),
            "queries": [o.to_json() for o in self.obligations],
            "self_tests": self.self_tests,
            "exhaustive": False,
            "known_findings_hit": [v.what for v in known_hits],
            "unreplayed_counterexamples": [
                {"obligation": o.name, "reason": r} for (o, r) in self.unreplayed],
        }
        ev = {
            "property_id": self.prop,
            "tier": self.tier,
            "seed": self.seed,
            "level": self.level,
            "coverage": cov,
            "assumptions": self.assumptions,
            "wall_s": round(wall, 3),
            "violations": len(new_violations),
        }
        if self.notes:
            ev["notes"] = self.notes
        os.makedirs(EVIDENCE_DIR, exist_ok=True)
        path = os.path.join(EVIDENCE_DIR, "%s.json" % self.prop)
        tmp = path + ".tmp"
        with open(tmp, "w") as f:
            json.dump(ev, f, indent=1, default=str)
        os.replace(tmp, path)

        for v in known_hits:
            print("KNOWN-FINDING: property=%s %s" % (self.prop, v.what), flush=True)
        for v in new_violations:
            print("VIOLATION property=%s replay=%s" % (self.prop, v.replay_path), flush=True)
            log("  what: %s" % v.what)
        log("[%s/%s] obligations=%d discharged=%d violated=%d inconclusive=%d wall=%.1fs solver=%.1fs"
            % (self.prop, self.tier, n_total, n_dis, n_viol, n_inc, wall, solver_s))
        if new_violations:
            return 1
        # violated obligations whose counterexample did not replay, or anything inconclusive
        unexplained = [o for o in self.obligations if o.status == "violated"
                       and not any(v.obligation is o or (o.role and v.key == o.role)
                                   for v in self.violations)]
        if unexplained or n_inc:
            for o in unexplained:
                log("  INCONCLUSIVE (counterexample not reproduced natively): %s" % o.name)
            for o in self.obligations:
                if o.status in ("inconclusive", "not_encoded"):
                    log("  INCONCLUSIVE: %s: %s" % (o.name, o.detail))
            return 2
        return 0
