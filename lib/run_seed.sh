#!/bin/sh
# Usage: lib/run_seed.sh <seed-id under /verif/seeded> <check ids...>   -- apply the seeded patch to /repo, run the checks, undo.
export VERIF_EVIDENCE_DIR=/verif/build/evidence_scratch; mkdir -p $VERIF_EVIDENCE_DIR
S=/verif/seeded/$1; shift
cd /verif
git -C /repo apply "$S/patch.diff" || { echo "patch does not apply"; exit 9; }
for c in "$@"; do
  ./check $c > build/seed_$c.out 2> build/seed_$c.err; rc=$?
  echo "$(basename $S) vs $c: rc=$rc $(grep -c '^VIOLATION' build/seed_$c.out) violation line(s); $(tail -1 build/seed_$c.err | cut -c1-160)"
done
git -C /repo checkout -- .
