#!/bin/sh
# Usage: lib/run_some.sh <tier> <ids...>: run the given checks sequentially, one summary line each (development helper).
cd "$(dirname "$0")/.."
TIER=$1; shift
for p in "$@"; do
  s=$(date +%s)
  ./check $p --tier $TIER > build/run_${TIER}_$p.out 2> build/run_${TIER}_$p.err
  rc=$?
  e=$(date +%s)
  echo "$p rc=$rc $((e-s))s $(grep -c '^VIOLATION' build/run_${TIER}_$p.out) violation-lines $(tail -n 1 build/run_${TIER}_$p.err | cut -c1-120)"
done
