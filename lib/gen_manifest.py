#!/usr/bin/env python3
"""Generate /verif/MANIFEST.json from the table below (kept in one place so it stays valid)."""
import json, os
V = os.path.dirname(os.path.dirname(os.path.abspath(__file__)))

CHECKS = {}
NA = {}

def chk(pid, level, text, note, technique, engine, design_ref):
    CHECKS[pid] = dict(level=level, text=text, note=note, technique=technique, engine=engine, design_ref=design_ref)

exec(open(os.path.join(V, 'lib', 'manifest_table.py')).read())

props = [json.loads(l)['id'] for l in open(os.path.join(V, 'properties.jsonl'))]
checks = []
for pid in props:
    if pid in CHECKS:
        c = CHECKS[pid]
        checks.append({
            "property_id": pid,
            "quick_cmd": "./check %s --tier quick" % pid,
            "thorough_cmd": "./check %s --tier thorough" % pid,
            "evidence_file": "/verif/evidence/%s.json" % pid,
            "replay_cmd_template": "./check %s --replay {path}" % pid,
            "engine": c['engine'],
            "level_claimed": {"category": c['level'], "text": c['text'], "design_ref": c['design_ref']},
            "level_note": c['note'],
            "technique": c['technique'],
        })
na = [{"property_id": p, "reason": NA[p]} for p in props if p not in CHECKS]
m = {
    "version": 1,
    "setup_cmd": "./setup.sh",
    "hooks": {
        "guard": "--cfg piecewise_polynomial_verif",
        "enable": "RUSTFLAGS='--cfg piecewise_polynomial_verif' (set by lib/e1.py for harnesses that need the read-only accessor; the MIR dump and all other harnesses build /repo with the guard off)",
        "baseline_off_cmd": "cd /repo && cargo test --workspace --no-fail-fast --offline",
        "source_commits": HOOK_COMMITS,
        "add_only": True,
    },
    "engines": [
        {"name": "E1-kani", "path": "/verif/e1", "serves_properties": sorted(p for p, c in CHECKS.items() if 'E1' in c['engine']),
         "kind_free_text": "Kani 0.68 / CBMC 6.11 proof harnesses over the compiled crate (path dependency on /repo), one harness per concrete size, symbolic f64/u64 inputs"},
        {"name": "E2-mir-smt", "path": "/verif/e2", "serves_properties": sorted(p for p, c in CHECKS.items() if 'E2' in c['engine']),
         "kind_free_text": "own symbolic interpreter of rustc's MIR dump of /repo (nightly -Zunpretty=mir), regenerated every run; obligations decided by z3 in QF_FP (bit-precise binary64) and in real arithmetic with rounding variables"},
    ],
    "checks": checks,
    "not_applicable": na,
    "notes": NOTES,
}
json.dump(m, open(os.path.join(V, 'MANIFEST.json'), 'w'), indent=1)
print("wrote MANIFEST.json: %d checks, %d not_applicable" % (len(checks), len(na)))
