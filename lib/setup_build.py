#!/usr/bin/env python3
"""Warm the build caches (optional: every check also builds what it needs)."""
import os, sys
sys.path.insert(0, os.path.dirname(os.path.abspath(__file__)))
import e1
from common import log
try:
    p = e1.Pool((), False)
    p.prepare(16, "c02::c02_probe_n1")
    log("setup: kani worker dirs ready")
except Exception as ex:  # not fatal: checks rebuild on demand
    log("setup: kani warm-up failed: %s" % ex)
try:
    sys.path.insert(0, os.path.join(os.path.dirname(os.path.dirname(os.path.abspath(__file__))), "e2"))
    import mirdump
    mirdump.dump()
    log("setup: MIR dump target warmed")
except Exception as ex:
    log("setup: MIR warm-up skipped: %s" % ex)
