#!/usr/bin/env python3
"""Rewrite §9 of DESIGN.md from /verif/seeded/*/meta.json."""
import glob, json, os, re
V = os.path.dirname(os.path.dirname(os.path.abspath(__file__)))
rows = []
for p in sorted(glob.glob(os.path.join(V, "seeded", "*", "meta.json"))):
    m = json.load(open(p))
    rows.append("| %s | %s | %s | %s |" % (m["seed"], m["breaks_property"], m["needs_to_manifest"].replace("|", "/"),
                                         ", ".join(m["detected_by"]) or "**missed**"))
table = "\n".join(["| seed | breaks | needs, in order to manifest | detected by (VIOLATION, natively replayed) |", "|---|---|---|---|"] + rows)
s = open(os.path.join(V, "DESIGN.md")).read()
i = s.index("## 9. Validation against seeded changes")
head = s[:i]
body = open(os.path.join(V, "lib", "seed_section.md")).read().replace("@@TABLE@@", table)
open(os.path.join(V, "DESIGN.md"), "w").write(head + body)
print("rows:", len(rows))
