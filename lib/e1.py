"""Engine E1: run Kani proof harnesses of /verif/e1 against the compiled /repo crate.

One `cargo kani --harness <mod::name> --exact` process per harness, several in
parallel, each worker with its own --target-dir (cargo's build lock and the
per-harness codegen arguments make a shared one unusable).  Results are parsed
per CBMC check, not per run (DESIGN.md §2.1):

  * failed checks of CBMC's own NaN / feraiseexcept instrumentation are not Rust
    semantics (Rust float operations never trap) -> 'ignored', listed in evidence
  * every other FAILURE / UNDETERMINED check (assertion, panic, bounds, overflow,
    unwinding, pointer) is relevant
  * a cover! that is not SATISFIED makes the harness vacuous -> inconclusive
  * time-out, out-of-memory, CBMC error -> inconclusive, never a pass

A failing harness is re-run with concrete playback; the generated unit test is
executed natively (`cargo kani playback`) on a scratch copy of the harness crate,
in the dev profile and in an optimised profile; only a counterexample that
reproduces natively becomes a VIOLATION.
"""
import os
import sys
import queue
import re
import shutil
import signal
import subprocess
import threading
import time

from common import BUILD, VERIF, REPLAY_DIR, REPO, NCPU, Obligation, log

E1_DIR = os.path.join(VERIF, "e1")
HOOK_CFG = "piecewise_polynomial_verif"

IGNORED_CHECK_RE = re.compile(r"\.NaN\.\d+$|feraiseexcept")
IGNORED_DESC_RE = re.compile(r"^\"?NaN on ")


def _env(hook):
    env = dict(os.environ)
    env["CARGO_NET_OFFLINE"] = "true"
    env.pop("CARGO_TARGET_DIR", None)
    if hook:
        env["RUSTFLAGS"] = (env.get("RUSTFLAGS", "") + " --cfg " + HOOK_CFG).strip()
    return env


def _variant(features, hook):
    v = "e1"
    if features:
        v += "_" + "_".join(sorted(features))
    if hook:
        v += "_hook"
    return v


def _group_rss_kb(pgid):
    total = 0
    for pid in os.listdir("/proc"):
        if not pid.isdigit():
            continue
        try:
            with open("/proc/%s/stat" % pid) as f:
                st = f.read()
            # pgrp is the 5th field after the (comm) part
            rest = st[st.rindex(")") + 2:].split()
            if int(rest[2]) != pgid:
                continue
            with open("/proc/%s/statm" % pid) as f:
                total += int(f.read().split()[1]) * 4
        except Exception:
            continue
    return total


def run_limited(cmd, cwd, env, timeout_s, mem_gb, logfile):
    """Run cmd in its own process group under a wall-clock and RSS cap.
    Returns (returncode or None, reason, wall_s, peak_rss_kb)."""
    t0 = time.time()
    peak = 0
    with open(logfile, "w") as lf:
        p = subprocess.Popen(cmd, cwd=cwd, env=env, stdout=lf, stderr=subprocess.STDOUT,
                             preexec_fn=os.setsid)
        reason = None
        while True:
            try:
                p.wait(timeout=2.0)
                break
            except subprocess.TimeoutExpired:
                pass
            rss = _group_rss_kb(p.pid)
            peak = max(peak, rss)
            if time.time() - t0 > timeout_s:
                reason = "timeout after %ds" % timeout_s
            elif rss > mem_gb * 1024 * 1024:
                reason = "memory cap %d GB exceeded" % mem_gb
            if reason:
                try:
                    os.killpg(p.pid, signal.SIGKILL)
                except ProcessLookupError:
                    pass
                p.wait()
                break
    return (None if reason else p.returncode), reason, time.time() - t0, peak


CHECK_RE = re.compile(
    r"^Check (\d+): (.+)\n\s+- Status: (\w+)\n\s+- Description: (.*)\n(?:\s+- Location: (.*)\n)?",
    re.M)


def parse_kani_output(text):
    checks = []
    for m in CHECK_RE.finditer(text):
        checks.append({"name": m.group(2), "status": m.group(3),
                       "desc": m.group(4).strip(), "loc": (m.group(5) or "").strip()})
    verdict = None
    m = re.search(r"VERIFICATION:- (\w+)", text)
    if m:
        verdict = m.group(1)
    t = None
    m = re.search(r"Verification Time: ([0-9.]+)s", text)
    if m:
        t = float(m.group(1))
    # cross-check the parser against Kani's own summary line
    m = re.search(r"\*\* (\d+) of (\d+) failed", text)
    if m:
        n_failed = sum(1 for c in checks if c["status"] == "FAILURE")
        n_props = sum(1 for c in checks if c["status"] not in ("SATISFIED", "UNSATISFIABLE")
                      and ".cover." not in c["name"])
        if n_failed != int(m.group(1)):
            verdict = None  # parser and Kani disagree -> inconclusive
    else:
        verdict = None
    return checks, verdict, t


class Pool:
    """Worker target directories for one (features, hook) variant."""

    def __init__(self, features=(), hook=False, workers=None):
        self.features = tuple(features)
        self.hook = hook
        self.variant = _variant(self.features, hook)
        self.workers = workers or max(1, min(NCPU, 16))
        self.dirs = queue.Queue()
        self.prepared = False

    def base_dir(self):
        return os.path.join(BUILD, self.variant + "_w0")

    def prepare(self, n_jobs, first_harness):
        """Build once in worker 0 (dependencies + crate), then clone that target dir
        for the other workers so that they only recompile the harness crate."""
        os.makedirs(BUILD, exist_ok=True)
        n = max(1, min(self.workers, n_jobs))
        base = self.base_dir()
        t0 = time.time()
        cmd = self.cmd(first_harness, base) + ["--only-codegen"]
        rc, reason, wall, _ = run_limited(cmd, E1_DIR, _env(self.hook), 900, 24,
                                          os.path.join(BUILD, self.variant + "_build.log"))
        if rc != 0:
            with open(os.path.join(BUILD, self.variant + "_build.log")) as f:
                tail = f.read()[-3000:]
            raise RuntimeError("kani build failed (%s): %s" % (reason or rc, tail))
        log("[e1] built %s in %.1fs" % (self.variant, time.time() - t0))
        self.dirs.put(base)
        for k in range(1, n):
            d = os.path.join(BUILD, "%s_w%d" % (self.variant, k))
            if not os.path.isdir(d):
                subprocess.run(["cp", "-a", "--reflink=auto", base, d], check=True)
            self.dirs.put(d)
        self.prepared = True
        return n

    def cmd(self, harness, target_dir, extra=()):
        c = ["cargo", "kani", "--target-dir", target_dir, "--harness", harness, "--exact"]
        if self.features:
            c += ["--features", ",".join(self.features)]
        c += list(extra)
        return c


class HarnessSpec:
    def __init__(self, name, what, functions, bounds, timeout_s=600, mem_gb=12, role=None,
                 expect_panic=False, stubs=False, aux=False):
        self.name = name  # fully qualified, e.g. c02::c02_probe_n3
        self.what = what
        self.functions = functions
        self.bounds = bounds
        self.timeout_s = timeout_s
        self.mem_gb = mem_gb
        self.role = role or name
        self.expect_panic = expect_panic
        self.stubs = stubs
        # auxiliary obligation: stronger than the property; its failure is recorded ('aux_not_established') but is
        # neither a violation nor a reason for an inconclusive verdict
        self.aux = aux


def classify(checks, verdict):
    relevant, ignored, covers = [], [], []
    for c in checks:
        is_cover = ".cover." in c["name"] or c["status"] in ("SATISFIED", "UNSATISFIABLE")
        if is_cover:
            covers.append(c)
            continue
        if c["status"] in ("FAILURE", "UNDETERMINED"):
            if IGNORED_CHECK_RE.search(c["name"]) or IGNORED_DESC_RE.search(c["desc"]):
                ignored.append(c)
            else:
                relevant.append(c)
    return relevant, ignored, covers


def run_one(pool, spec):
    d = pool.dirs.get()
    try:
        logfile = os.path.join(BUILD, "log_%s_%s.txt" % (pool.variant, spec.name.replace("::", "__")))
        extra = []
        if spec.stubs:
            extra += ["-Z", "stubbing"]
        rc, reason, wall, peak = run_limited(pool.cmd(spec.name, d, extra), E1_DIR, _env(pool.hook),
                                             spec.timeout_s, spec.mem_gb, logfile)
        with open(logfile, errors="replace") as f:
            text = f.read()
    finally:
        pool.dirs.put(d)
    bounds = dict(spec.bounds or {})
    bounds["peak_rss_mb"] = peak // 1024
    if reason:
        return Obligation(spec.name, "E1-kani", spec.what, "inconclusive", wall, detail=reason,
                          functions=spec.functions, bounds=bounds, role=spec.role), text
    checks, verdict, vt = parse_kani_output(text)
    if verdict is None or not checks:
        tail = text[-1500:]
        return Obligation(spec.name, "E1-kani", spec.what, "inconclusive", wall,
                          detail="no verdict from Kani/CBMC (rc=%s): %s" % (rc, tail),
                          functions=spec.functions, bounds=bounds, role=spec.role), text
    relevant, ignored, covers = classify(checks, verdict)
    if verdict != "SUCCESSFUL" and not relevant and not ignored and not spec.expect_panic:
        return Obligation(spec.name, "E1-kani", spec.what, "inconclusive", wall,
                          detail="Kani verdict %s but no failed check parsed" % verdict,
                          functions=spec.functions, bounds=bounds, role=spec.role), text
    bounds["cbmc_checks"] = len(checks)
    if ignored:
        bounds["ignored_cbmc_float_instrumentation_failures"] = len(ignored)
    sat_covers = [c["desc"] for c in covers if c["status"] == "SATISFIED"]
    # covers whose message starts with "opt:" are informational (they sit in code that is dead for some instantiations)
    bad_covers = [c for c in covers if c["status"] != "SATISFIED" and not c["desc"].strip('"').startswith("opt:")]
    if spec.expect_panic:
        # should_panic harness: Kani reports SUCCESSFUL iff a panic was reachable
        if verdict == "SUCCESSFUL":
            return Obligation(spec.name, "E1-kani", spec.what, "discharged", wall,
                              functions=spec.functions, bounds=bounds,
                              witness={"documented_panic_reachable": True}, role=spec.role), text
        return Obligation(spec.name, "E1-kani", spec.what, "inconclusive", wall,
                          detail="documented rejection not reachable (precondition harness vacuous?)",
                          functions=spec.functions, bounds=bounds, role=spec.role), text
    if relevant and spec.aux:
        detail = "; ".join("%s [%s] %s" % (c["name"], c["status"], c["desc"]) for c in relevant[:4])
        return Obligation(spec.name, "E1-kani", spec.what, "aux_not_established", wall, detail=detail,
                          functions=spec.functions, bounds=bounds, role=spec.role), text
    if relevant:
        detail = "; ".join("%s [%s] %s @ %s" % (c["name"], c["status"], c["desc"], c["loc"])
                           for c in relevant[:6])
        return Obligation(spec.name, "E1-kani", spec.what, "violated", wall, detail=detail,
                          functions=spec.functions, bounds=bounds,
                          model={"failed_checks": [c["desc"] for c in relevant[:6]]},
                          role=spec.role), text
    if bad_covers:
        return Obligation(spec.name, "E1-kani", spec.what, "inconclusive", wall,
                          detail="vacuity: cover not satisfied: " +
                                 "; ".join("%s [%s]" % (c["desc"], c["status"]) for c in bad_covers),
                          functions=spec.functions, bounds=bounds, role=spec.role), text
    return Obligation(spec.name, "E1-kani", spec.what, "discharged", wall,
                      functions=spec.functions, bounds=bounds,
                      witness={"covers_satisfied": sat_covers} if covers else
                      {"covers_satisfied": [], "note": "no cover! in this harness; reachability "
                       "is shown by its sibling harnesses"},
                      role=spec.role), text


def run_specs(specs, features=(), hook=False, workers=None):
    """Run all harness specs; returns list of Obligation (same order)."""
    if not specs:
        return []
    pool = Pool(features, hook, workers)
    try:
        pool.prepare(len(specs), specs[0].name)
    except RuntimeError as e:
        return [Obligation(s.name, "E1-kani", s.what, "inconclusive", 0.0, detail=str(e)[-2000:],
                           functions=s.functions, bounds=s.bounds, role=s.role) for s in specs]
    results = [None] * len(specs)
    jobs = queue.Queue()
    # longest first
    order = sorted(range(len(specs)), key=lambda i: -specs[i].timeout_s)
    for i in order:
        jobs.put(i)

    def worker():
        while True:
            try:
                i = jobs.get_nowait()
            except queue.Empty:
                return
            t0 = time.time()
            ob, _ = run_one(pool, specs[i])
            results[i] = ob
            log("[e1] %-40s %-12s %.1fs" % (specs[i].name, ob.status, time.time() - t0))

    nthreads = pool.dirs.qsize()
    ths = [threading.Thread(target=worker) for _ in range(nthreads)]
    for t in ths:
        t.start()
    for t in ths:
        t.join()
    return results


PLAYBACK_RE = re.compile(r"Concrete playback unit test for `([^`]+)`:\n```\n(.*?)```", re.S)


def replay(prop, spec, features=(), hook=False):
    """Concrete playback + native replay of a failing harness.
    Returns (reproduced: bool, replay_path, description)."""
    pool = Pool(features, hook, 1)
    base = pool.base_dir()
    os.makedirs(os.path.join(REPLAY_DIR, prop), exist_ok=True)
    logfile = os.path.join(BUILD, "playback_%s.txt" % spec.name.replace("::", "__"))
    extra = ["-Z", "concrete-playback", "--concrete-playback=print"]
    if spec.stubs:
        extra += ["-Z", "stubbing"]
    rc, reason, wall, _ = run_limited(pool.cmd(spec.name, base, extra),
                                      E1_DIR, _env(hook), max(900, spec.timeout_s * 3), 24, logfile)
    with open(logfile, errors="replace") as f:
        text = f.read()
    if reason:
        return False, None, "concrete playback run: " + reason
    tests = PLAYBACK_RE.findall(text)
    # keep only tests generated for failed assertions/panics, not for cover properties
    tests = [(h, t) for (h, t) in tests if "Check for `cover`" not in t]
    if not tests:
        return False, None, "Kani produced no concrete playback test for a failed check"
    parts = spec.name.split("::")
    mod, fn = parts[0], parts[-1]
    inner = "::".join(parts[1:])  # path of the harness fn relative to the top-level module file (nested inline modules)
    scratch = os.path.join(BUILD, "replay_" + spec.name.replace("::", "__"))
    shutil.rmtree(scratch, ignore_errors=True)
    shutil.copytree(E1_DIR, scratch)
    src = os.path.join(scratch, "src", mod + ".rs")
    names = []
    tests = [(h, re.sub(r"(concrete_playback_run\(concrete_vals,\s*)%s\)" % re.escape(fn), r"\g<1>%s)" % inner, t)) for (h, t) in tests]
    with open(src, "a") as f:
        for (h, t) in tests:
            f.write("\n" + t + "\n")
            m = re.search(r"fn (kani_concrete_playback_\w+)\(", t)
            if m:
                names.append(m.group(1))
    replay_file = os.path.join(REPLAY_DIR, prop, spec.name.replace("::", "__") + ".rs")
    with open(replay_file, "w") as f:
        f.write("// Native replay of a Kani counterexample for harness %s (property %s).\n"
                "// Append to /verif/e1/src/%s.rs in a scratch copy of /verif/e1 and run\n"
                "//   cargo kani playback -Z concrete-playback -- %s\n"
                "// (./check %s --replay %s does this).\n\n" % (spec.name, prop, mod, names[0] if names else "",
                                                               prop, replay_file))
        for (h, t) in tests:
            f.write(t + "\n")
    reproduced = False
    desc = []
    for profile, penv in (("dev", {}),
                          ("opt", {"CARGO_PROFILE_DEV_OPT_LEVEL": "3",
                                   "CARGO_PROFILE_DEV_DEBUG_ASSERTIONS": "false",
                                   "CARGO_PROFILE_DEV_OVERFLOW_CHECKS": "false"})):
        env = _env(hook)
        env.update(penv)
        env["CARGO_TARGET_DIR"] = os.path.join(BUILD, "replay_target_" + profile)
        cmd = ["cargo", "kani", "playback", "-Z", "concrete-playback"]
        if features:
            cmd += ["--features", ",".join(features)]
        cmd += ["--", "kani_concrete_playback_" + fn]
        lf = os.path.join(BUILD, "replayrun_%s_%s.txt" % (spec.name.replace("::", "__"), profile))
        rc, reason, wall, _ = run_limited(cmd, scratch, env, 900, 24, lf)
        with open(lf, errors="replace") as f:
            out = f.read()
        m = re.search(r"test result: (\w+)\. (\d+) passed; (\d+) failed", out)
        if m and int(m.group(3)) > 0:
            reproduced = True
            pm = re.search(r"panicked at [^\n]*\n([^\n]*)", out)
            desc.append("%s profile: %d/%d playback tests fail natively (%s)" % (
                profile, int(m.group(3)), int(m.group(2)) + int(m.group(3)),
                pm.group(1).strip() if pm else "panic"))
        elif m:
            desc.append("%s profile: all %s playback tests pass natively" % (profile, m.group(2)))
        else:
            desc.append("%s profile: playback did not run (%s)" % (profile, reason or out[-300:]))
    shutil.rmtree(scratch, ignore_errors=True)
    return reproduced, replay_file, "; ".join(desc)


def replay_file_cmd(prop, replay_file, features=(), hook=False):
    """./check <prop> --replay <file>: run a stored playback test natively again."""
    with open(replay_file) as f:
        text = f.read()
    m = re.search(r"for harness (\S+) \(property", text)
    if not m:
        raise SystemExit("not an E1 replay file")
    name = m.group(1)
    mod, fn = name.split("::")[0], name.split("::")[-1]
    scratch = os.path.join(BUILD, "replay_" + name.replace("::", "__"))
    shutil.rmtree(scratch, ignore_errors=True)
    shutil.copytree(E1_DIR, scratch)
    with open(os.path.join(scratch, "src", mod + ".rs"), "a") as f:
        f.write("\n" + text)
    env = _env(hook)
    env["CARGO_TARGET_DIR"] = os.path.join(BUILD, "replay_target_dev")
    cmd = ["cargo", "kani", "playback", "-Z", "concrete-playback"]
    if features:
        cmd += ["--features", ",".join(features)]
    cmd += ["--", "kani_concrete_playback_" + fn]
    r = subprocess.run(cmd, cwd=scratch, env=env, stdout=subprocess.PIPE, stderr=subprocess.STDOUT, text=True)
    sys.stdout.write(r.stdout)
    shutil.rmtree(scratch, ignore_errors=True)
    # the verdict is the playback test's own result line, not cargo's exit status (which also covers unrelated steps)
    m2 = re.search(r"test result: (\w+)\. (\d+) passed; (\d+) failed", r.stdout)
    if m2 and int(m2.group(2)) + int(m2.group(3)) >= 1:
        return 1 if int(m2.group(3)) > 0 else 0
    return 1 if r.returncode != 0 else 0
