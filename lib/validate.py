#!/usr/bin/env python3
"""Validate MANIFEST.json and all evidence files against the schemas in /root/.vp."""
import json, sys, glob, os
import jsonschema
V = os.path.dirname(os.path.dirname(os.path.abspath(__file__)))
ok = True
ms = json.load(open('/root/.vp/MANIFEST.schema.json'))
es = json.load(open('/root/.vp/EVIDENCE.schema.json'))
try:
    m = json.load(open(os.path.join(V, 'MANIFEST.json')))
    jsonschema.validate(m, ms)
    print('MANIFEST ok: %d checks, %d n/a' % (len(m['checks']), len(m.get('not_applicable', []))))
except Exception as e:
    ok = False
    print('MANIFEST INVALID', str(e)[:500])
for p in sorted(glob.glob(os.path.join(V, 'evidence', '*.json'))):
    try:
        ev = json.load(open(p))
        jsonschema.validate(ev, es)
        c = ev['coverage']
        print('%s ok level=%s tier=%s obligations=%s discharged=%s wall=%s' % (
            os.path.basename(p), ev['level'], ev['tier'], c.get('obligations'), c.get('discharged'), ev['wall_s']))
    except Exception as e:
        ok = False
        print(p, 'INVALID', str(e)[:500])
sys.exit(0 if ok else 1)
