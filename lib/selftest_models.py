#!/usr/bin/env python3
"""Self-test of the MIR interpreter's std models (/verif/e2/builtins_model.py, interp.py).

The corpus crate /verif/stdtest holds ~50 small functions &[f64] -> Vec<f64>, each exercising a family of std APIs
(iterator adaptors, slices, Vec, Option/Result, mem, f64 and usize methods, control flow).  Its MIR is dumped with the
same nightly rustc the checks use and every function is run CONCRETELY through the interpreter on a fixed set of inputs;
the native binary runs the same functions on the same inputs.  Verdict per function:

    ok           every input agrees bit for bit (a panic on one side must be a panic on the other)
    unsupported  the interpreter refused (no model): acceptable -- a check that meets such code answers "inconclusive"
    MISMATCH     the interpreter produced a different result: a wrong model, must be fixed

Usage: python3-vt lib/selftest_models.py [function-name-prefix]     exit 0 iff no MISMATCH
"""
import os
import struct
import subprocess
import sys

HERE = os.path.dirname(os.path.abspath(__file__))
sys.path.insert(0, HERE)
sys.path.insert(0, os.path.join(os.path.dirname(HERE), "e2"))
from common import BUILD  # noqa: E402
from domains import FPDomain  # noqa: E402
from interp import Cell, Interp, Panic, Program, SliceRef, Array, VecV, Unsupported, PathLimit  # noqa: E402

CRATE = os.path.join(os.path.dirname(HERE), "stdtest")
TARGET = os.path.join(BUILD, "stdtest_target")

INF = float("inf")
INPUTS = [
    [], [1.0], [2.0, 1.0], [1.0, 2.0, 3.0], [3.0, 2.0, 2.0, 1.0], [0.5, -1.5, 2.0, 4.5, 3.0], [1.0, 1.0, 2.0, 2.0, 3.0, 3.0],
    [-0.0, 0.0, 1.0, -1.0, 2.5, 7.0, 0.25], [5.0, 4.0, 3.0, 2.0, 1.0, 0.0, -1.0, -2.0], [1.0, 3.0, 2.0, 2.0, 8.0, 0.125, 6.0, 2.0, 3.0],
    [INF, 1.0, -INF, 2.0], [1e-310, 2.0, 1e300, 3.0, 2.0],
]


def bits(x):
    return struct.unpack("<Q", struct.pack("<d", x))[0]


def native():
    env = dict(os.environ, CARGO_NET_OFFLINE="true", CARGO_TARGET_DIR=TARGET)
    r = subprocess.run(["cargo", "build", "--offline", "-q"], cwd=CRATE, env=env, stdout=subprocess.PIPE, stderr=subprocess.STDOUT, text=True)
    if r.returncode != 0:
        raise RuntimeError("stdtest build failed: " + r.stdout[-2000:])
    inp = "\n".join(" ".join("%016x" % bits(x) for x in v) for v in INPUTS) + "\n"
    # an empty input is an empty line
    r = subprocess.run([os.path.join(TARGET, "debug", "stdtest_native")], input=inp, stdout=subprocess.PIPE, stderr=subprocess.DEVNULL, text=True)
    out = {}
    for line in r.stdout.splitlines():
        head, _, rest = line.partition(":")
        name, idx = head.split()
        rest = rest.strip()
        out[(name, int(idx))] = "PANIC" if rest == "PANIC" else [int(h, 16) for h in rest.split()]
    return out


def mir():
    env = dict(os.environ, CARGO_NET_OFFLINE="true", CARGO_TARGET_DIR=os.path.join(BUILD, "stdtest_mir_target"))
    env.pop("RUSTFLAGS", None)
    subprocess.run(["touch", os.path.join(CRATE, "src", "lib.rs")])
    r = subprocess.run(["cargo", "+nightly", "rustc", "--offline", "--lib", "--", "-Zunpretty=mir", "-C", "overflow-checks=on"],
                       cwd=CRATE, env=env, stdout=subprocess.PIPE, stderr=subprocess.PIPE, text=True)
    if r.returncode != 0 or "fn " not in r.stdout:
        raise RuntimeError("stdtest MIR dump failed: " + r.stderr[-2000:])
    src = {"src/lib.rs": open(os.path.join(CRATE, "src", "lib.rs")).read()}
    return Program(r.stdout, src)


def run_interp(prog, name, vals):
    dom = FPDomain()
    it = Interp(prog, dom, max_paths=4)
    fn = prog.find(name)

    def mk(d):
        cell = Cell(Array([d.const(v) for v in vals]))
        return [SliceRef(cell, (), 0, len(vals))]
    paths = it.explore(fn, mk)
    if len(paths) != 1:
        raise Unsupported("%d paths on concrete input" % len(paths))
    p = paths[0]
    if p.panic is not None:
        return "PANIC"
    r = p.result
    if not isinstance(r, VecV):
        raise Unsupported("result is %r" % (r,))
    out = []
    for x in r.fields:
        if x.conc is None:
            raise Unsupported("symbolic number in a concrete run")
        out.append(bits(x.conc))
    return out


SYMBOLIC_SKIP = {"t_successors_from_fn": "loop bound depends on a symbolic value: no finite set of paths (concrete mode only)"}


def run_symbolic(prog, name, vals, max_paths=400):
    """Run the function on SYMBOLIC inputs of the same length, then select the path whose condition holds for `vals` and
    evaluate its result terms there: exercises the symbolic branches of the models (decisions, lazily decided orderings,
    merged terms), which a concrete run never enters."""
    import z3
    dom = FPDomain()
    it = Interp(prog, dom, max_paths=max_paths)
    fn = prog.find(name)
    F = z3.Float64()
    syms = [z3.FP("in%d" % i, F) for i in range(len(vals))]

    def mk(d):
        cell = Cell(Array([d.sym("in%d" % i) for i in range(len(vals))]))
        return [SliceRef(cell, (), 0, len(vals))]
    paths = it.explore(fn, mk)
    sub = [(s_, z3.FPVal(v, F)) for s_, v in zip(syms, vals)]

    def holds(c):
        if isinstance(c, bool):
            return c
        r = z3.simplify(z3.substitute(c, *sub)) if sub else z3.simplify(c)
        if z3.is_true(r):
            return True
        if z3.is_false(r):
            return False
        raise Unsupported("path condition does not evaluate: %s" % r)
    sel = [p for p in paths if all(holds(c) for c in p.conds)]
    if len(sel) != 1:
        raise RuntimeError("%d of %d paths hold for the concrete input (expected exactly one)" % (len(sel), len(paths)))
    p = sel[0]
    if p.panic is not None:
        return "PANIC", len(paths)
    r = p.result
    if not isinstance(r, VecV):
        raise Unsupported("result is %r" % (r,))
    out = []
    for x in r.fields:
        if x.conc is not None:
            out.append(bits(x.conc))
            continue
        t = z3.simplify(z3.substitute(x.t, *sub)) if sub else z3.simplify(x.t)
        if not z3.is_fp_value(t):
            t = z3.simplify(z3.fpToIEEEBV(t))
            if not z3.is_bv_value(t):
                raise Unsupported("result term does not evaluate: %s" % t)
            out.append(t.as_long())
            continue
        w = z3.simplify(z3.fpToIEEEBV(t))
        out.append(w.as_long() if z3.is_bv_value(w) else bits(float("nan")))
    return out, len(paths)


def main_symbolic(prefix=""):
    nat = native()
    prog = mir()
    names = sorted({n for (n, _) in nat if n.startswith(prefix)})
    verdicts = {}
    for n in names:
        if n in SYMBOLIC_SKIP:
            verdicts[n] = ("skipped", SYMBOLIC_SKIP[n])
            print("%-34s %-12s %s" % (n, "skipped", SYMBOLIC_SKIP[n]), flush=True)
            continue
        status, detail, npaths, checked, skipped = "ok", "", 0, 0, 0
        t_fn = __import__("time").time()
        for i, vals in enumerate(INPUTS):
            if len(vals) > 3:
                continue  # symbolic runs fork on every comparison: short inputs only
            if __import__("time").time() - t_fn > 90:
                skipped += 1  # time budget per function
                continue
            try:
                got, k = run_symbolic(prog, n, vals, max_paths=150)
                npaths = max(npaths, k)
                checked += 1
            except PathLimit:
                skipped += 1  # too many branch patterns for this input length: not a verdict about the models
                continue
            except Unsupported as ex:
                if "step limit" in str(ex):
                    skipped += 1
                    continue
                status, detail = "unsupported", ("input %d: " % i) + str(ex)[:110]
                break
            except RuntimeError as ex:
                status, detail = "MISMATCH", ("input %r: " % (vals,)) + str(ex)
                break
            except Exception as ex:
                status, detail = "unsupported", "interpreter error %s: %s" % (type(ex).__name__, str(ex)[:100])
                break
            if not same(got, nat[(n, i)]):
                status = "MISMATCH"
                detail = "input %r: symbolic run gives %s, native %s" % (vals, got if got == "PANIC" else ["%016x" % w for w in got][:8],
                                                                          nat[(n, i)] if nat[(n, i)] == "PANIC" else ["%016x" % w for w in nat[(n, i)]][:8])
                break
        if status == "ok" and checked == 0:
            status = "unsupported"
            detail = "every input exceeded the path limit"
        verdicts[n] = (status, (detail + " [%d inputs checked, %d skipped for path count / time, max %d paths]" % (checked, skipped, npaths)).strip())
        print("%-34s %-12s %s" % (n, verdicts[n][0], verdicts[n][1]), flush=True)
    return verdicts


def same(a, b):
    if a == "PANIC" or b == "PANIC":
        return a == b
    if len(a) != len(b):
        return False
    nan = lambda w: (w & 0x7ff0000000000000) == 0x7ff0000000000000 and (w & 0x000fffffffffffff) != 0
    return all(x == y or (nan(x) and nan(y)) for x, y in zip(a, b))


def main(prefix=""):
    nat = native()
    prog = mir()
    names = sorted({n for (n, _) in nat if n.startswith(prefix)})
    verdicts = {}
    for n in names:
        status, detail = "ok", ""
        for i, vals in enumerate(INPUTS):
            try:
                got = run_interp(prog, n, vals)
            except (Unsupported, PathLimit) as ex:
                status, detail = "unsupported", str(ex)[:120]
                break
            except Panic as ex:
                got = "PANIC"
            except Exception as ex:  # an interpreter crash is a defect of the interpreter, reported like a refusal but flagged
                status, detail = "unsupported", "interpreter error %s: %s" % (type(ex).__name__, str(ex)[:100])
                break
            if not same(got, nat[(n, i)]):
                status = "MISMATCH"
                detail = "input %r: interpreter %s, native %s" % (vals, got if got == "PANIC" else ["%016x" % w for w in got][:8],
                                                                  nat[(n, i)] if nat[(n, i)] == "PANIC" else ["%016x" % w for w in nat[(n, i)]][:8])
                break
        verdicts[n] = (status, detail)
    return verdicts


if __name__ == "__main__":
    if len(sys.argv) > 1 and sys.argv[1] == "--symbolic":
        v = main_symbolic(sys.argv[2] if len(sys.argv) > 2 else "")
        cnt = {}
        for s_, _ in v.values():
            cnt[s_] = cnt.get(s_, 0) + 1
        print(cnt)
        if len(sys.argv) <= 2:
            import json
            with open(os.path.join(CRATE, "last_result_symbolic.json"), "w") as fh:
                json.dump({"functions": len(v), "summary": cnt, "not_ok": {n: list(sd) for n, sd in v.items() if sd[0] != "ok"}}, fh, indent=1)
        sys.exit(1 if cnt.get("MISMATCH") else 0)
    v = main(sys.argv[1] if len(sys.argv) > 1 else "")
    for n, (s, d) in sorted(v.items()):
        print("%-34s %-12s %s" % (n, s, d))
    cnt = {}
    for s, _ in v.values():
        cnt[s] = cnt.get(s, 0) + 1
    print(cnt)
    if len(sys.argv) <= 1:
        import json
        with open(os.path.join(CRATE, "last_result.json"), "w") as fh:
            json.dump({"functions": len(v), "inputs_per_function": len(INPUTS), "summary": cnt,
                       "not_ok": {n: list(sd) for n, sd in v.items() if sd[0] != "ok"}}, fh, indent=1)
    sys.exit(1 if cnt.get("MISMATCH") else 0)
