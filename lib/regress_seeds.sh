#!/bin/sh
# Usage: lib/regress_seeds.sh [seed-id-prefix...]  -- every kept seed (or those matching a prefix) against the check of the property
# it breaks: apply to /repo, run the quick check, undo.  Expected: rc=1 with a VIOLATION line for every seed.
export VERIF_EVIDENCE_DIR=/verif/build/evidence_scratch; mkdir -p $VERIF_EVIDENCE_DIR
cd "$(dirname "$0")/.."
for d in seeded/*/; do
  s=$(basename $d)
  if [ $# -gt 0 ]; then ok=0; for p in "$@"; do case $s in $p*) ok=1;; esac; done; [ $ok = 1 ] || continue; fi
  prop=$(python3 -c "import json,sys;print(json.load(open('$d/meta.json'))['breaks_property'])")
  git -C /repo apply "$PWD/${d}patch.diff" || { echo "$s: patch does not apply"; continue; }
  t0=$(date +%s)
  ./check $prop > build/reg_$s.out 2> build/reg_$s.err; rc=$?
  git -C /repo checkout -- .
  echo "$s vs $prop: rc=$rc $(grep -c '^VIOLATION' build/reg_$s.out) violation line(s) $(( $(date +%s) - t0 ))s"
done
git -C /repo status --short | head -3
