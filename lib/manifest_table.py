# Table read by gen_manifest.py.  chk(pid, level, text, note, technique, engine, design_ref); NA[pid] = reason.
HOOK_COMMITS = []
NOTES = ("Solver-based checking only. exit 0 = all obligations inside the stated bounds discharged; exit 1 = counterexample "
         "reproduced natively (VIOLATION line); exit 2 = inconclusive (never a pass). Known findings: known_findings.json.")

chk("C02", "model_checking",
    "Kani/CBMC decides, for every concrete segment count 1..4 (quick) / 1..6 (thorough), that Piecewise::evaluate returns bit-for-bit the value of the piece chosen by the property's index rule, for ALL non-NaN non-decreasing f64 ends and ALL non-NaN x (so every breakpoint, its ulp-neighbours, +-inf, duplicates are covered symbolically).",
    "Trusted: Kani's translation, CBMC+CaDiCaL, probe piece type. Bound: <= 6 segments; no induction over the segment count.",
    "bounded model checking (Kani/CBMC) of the real code over symbolic f64 inputs", "E1-kani", "DESIGN.md §4 C02")
chk("C03", "model_checking",
    "Kani/CBMC decides bit-equality of PiecewiseEvaluator and Piecewise::evaluate after every query for all histories of Q symbolic non-NaN f64 queries on N symbolic segments, (N,Q) up to (3,3) quick and (4,4),(5,3),(3,5) thorough.",
    "Trusted: Kani, CBMC. Bound: history length and segment count as listed; longer histories outside the claim.",
    "bounded model checking (Kani/CBMC) over symbolic query histories", "E1-kani", "DESIGN.md §4 C03")
chk("C16", "model_checking",
    "Kani/CBMC decides that query histories containing NaN/inf leave later non-NaN answers bit-identical to direct evaluation, and that the public operations do not panic on well-formed input, per concrete size.",
    "Trusted: Kani, CBMC. Bound: sizes listed in evidence.",
    "bounded model checking (Kani/CBMC) with panic/bounds/overflow checks", "E1-kani", "DESIGN.md §4 C16")

for _p, _r in [
    ("C01", "check under construction (E2 MIR->SMT encoder)"), ("C04", "check under construction"),
    ("C05", "check under construction"), ("C06", "check under construction"), ("C07", "check under construction"),
    ("C08", "check under construction"), ("C09", "check under construction"), ("C10", "check under construction"),
    ("C11", "check under construction"), ("C12", "check under construction"), ("C13", "check under construction"),
    ("C14", "check under construction"), ("C15", "check under construction"), ("C17", "check under construction"),
    ("C18", "check under construction"), ("C19", "check under construction")]:
    NA[_p] = _r
