# Table read by gen_manifest.py.  chk(pid, level, text, note, technique, engine, design_ref); NA[pid] = reason.
HOOK_COMMITS = ["488a99c"]
NOTES = ("Solver-based checking only. exit 0 = all obligations inside the stated bounds discharged; exit 1 = counterexample "
         "reproduced natively against the real crate (VIOLATION line); exit 2 = inconclusive (time-out, not-encoded obligation, "
         "non-reproducing model) and never a pass. Known findings / fixed defects: known_findings.json. Two genuine defects were "
         "repaired in /repo with 'fix:' commits (f73c2ca C16, 23a64ca C09/C11).")

E2 = "E2-mir-smt"
E1 = "E1-kani"
BOTH = "E2-mir-smt + E1-kani"
SMT = "symbolic execution of the MIR + z3 (QF_FP bit-precise / nonlinear real arithmetic with rounding variables)"
BMC = "bounded model checking (Kani/CBMC) of the compiled crate over symbolic f64/u64 inputs"

chk("C01", "proof",
    "Every evaluate impl (Poly0..8, PolyN lengths 0..12 (identity also at 16,17,33,65; thorough to 257), Log<Poly0..8>) is executed symbolically from the MIR; z3 proves for ALL real inputs that the operation tree equals sum c_i x^i (exact arithmetic), that the rounded result is linear in the coefficients and every monomial lane carries a factor within 4(n+2)*2^-53 of 1 (tightness twins sat), and bit-precisely that Log<T>::evaluate(v) is T::evaluate(ln v). A Kani anchor checks exactness on exactly representable integers through the compiled code incl. fma.",
    "Standard rounding model (no overflow/underflow: the property's own proviso); ln uninterpreted; PolyN length <= 12; Kani anchor on |c|<=4,|x|<=3. Trusted: rustc MIR dump, own interpreter (validated every run against the native crate), z3.",
    SMT + "; Kani anchor", BOTH, "DESIGN.md §4 C01")
chk("C02", "model_checking",
    "Two encodings of the real code decide the claim for every concrete segment count: (E2) the MIR of Piecewise::evaluate is executed symbolically for N = 1..65 (quick) / ..257 (thorough) symbolic segments and z3 proves the piece evaluated (uninterpreted EV(piece,x)) is the first whose end > x, else the last, for ALL non-NaN non-decreasing ends and ALL non-NaN x; (E1) Kani/CBMC decides the same bit for bit on the compiled code for N = 1..4 (6).",
    "Bound: the listed segment counts (no induction over N). For N > 4 breakpoints/arguments are reals: non-NaN binary64 under IEEE comparison embeds order-isomorphically and the code only compares them; N <= 4 also bit-precisely. Trusted: rustc MIR, own interpreter, z3; Kani, CBMC.",
    SMT + "; " + BMC, BOTH, "DESIGN.md §4 C02")
chk("C03", "model_checking",
    "(E2) PiecewiseEvaluator::new + Q evaluate calls on shared state are executed symbolically from the MIR for (N,Q) = (8,3),(6,4),(12,3),(5,5) quick / + (10,4),(24,3),(6,5),(8,4) thorough (hundreds to ~14000 feasible paths each) and z3 proves every answer is the piece direct evaluation selects, evaluated at that argument; (E1) Kani/CBMC decides bit-equality with Piecewise::evaluate on the compiled code for (N,Q) up to (3,3) / (4,4),(5,3),(3,5); thorough adds the auxiliary state-independence harness (hook) that extends the claim to histories of any length for N<=4.",
    "Bound: sizes as listed. Larger sizes use the order-isomorphic real embedding of non-NaN binary64 (comparisons only); small sizes also bit-precisely. The state-independence harness is auxiliary: its failure is recorded, not reported as a violation.",
    SMT + "; " + BMC, BOTH, "DESIGN.md §4 C03")
chk("C04", "proof",
    "constrained_spline is executed symbolically AS A WHOLE from its MIR (slicing, zips, chains, closures, f_dx, segment) for 3,4,7 (quick) / 3..8 (thorough) knots; for every f_dx branch pattern z3's nlsat proves over ALL real knots with strictly increasing x: ends = right abscissae, both Hermite interpolation conditions per cubic, C1 continuity, harmonic-mean/zero interior slopes, 3/2-1/2 end slopes, no divisor can vanish; ends verbatim bit-precisely; left-knot rounding bound 12u per monomial for the kernel.",
    "Exact-arithmetic meaning of the code + left-knot rounding bound; right-knot/derivative rounding bounds (conditioning (|x|/dx)^3) are not decided. Knot counts beyond the list are outside the claim.",
    SMT, E2, "DESIGN.md §4 C04")
chk("C05", "proof",
    "Same whole-function encoding; each explored path is split by the solver into the data cases it serves (secant slopes at each interior knot differ in sign / one is zero, or not -- not read off the code's branch decisions); z3's nlsat decides for every case, ALL real admissible knots AND EVERY real t of each interval that the cubic is monotone and stays between the knot ordinates (no sampling of t), that the branch taken equals the sign-change predicate, zero slope at extrema, collinear data -> the straight line, and coefficient-wise equality with Kruger's formulas; the sign branch of f_dx bit-precisely in FP.",
    "Shape claims are about the exact-arithmetic meaning of the code (no posing of monotonicity under rounding was found that nlsat finishes); 3,4 (quick) / 3..5 knots (the coefficient-wise Kruger identity for 3 and 4 knots; at 5 knots one of its sixteen identities does not finish in nlsat).",
    SMT, E2, "DESIGN.md §4 C05")
chk("C06", "proof",
    "linear() executed symbolically as a whole from MIR for 2..6 and 8 (thorough also 10) knots (exact arithmetic; 5 knots and more as parallel parts), 2..3 (4) knots bit-precisely; for every path -- classified by the solver as narrower than / at least machine epsilon wide / both, independent of the code's branch polarity -- z3 proves running-maximum ends, the machine-epsilon threshold (also bit-precisely in FP, where `<` vs `<=` differs at exactly one float), constant narrow segments, the straight-line interpolant for every real t, non-vanishing divisors and the left-knot rounding bound 4u; Kani confirms ends/length/no-panic on the compiled code.",
    "Right-knot rounding bound (conditioning |x|/dx) not decided; knot counts beyond the list outside the claim.",
    SMT + "; Kani structure harness", BOTH, "DESIGN.md §4 C06")
chk("C07", "proof",
    "indefinite()/integral() of Poly0..7 and through Segment<T>: z3 proves constant term 0 and c0 exact (FP), every coefficient within (2u+u^2) relative of c_i/(i+1), F(knot.x)=knot.y and F(b)-F(a)=exact integral for all reals (exact arithmetic), knot-residual bound 4(n+3)u per monomial, derivative(indefinite(p)) within (2u+u^2) of p.",
    "Standard rounding model; no input bound otherwise.", SMT, E2, "DESIGN.md §4 C07")
chk("C08", "proof",
    "derivative() of Poly0..8 and Segment<T>: z3 proves power-of-two lanes exact (FP, all finite inputs), every lane within (2u+u^2) relative of (i+1)c_(i+1), value identity p'(x) in exact arithmetic; Kani proves Piecewise::derivative keeps length, order and breakpoints and differentiates each piece once. In addition Piecewise::derivative and Segment::derivative are executed from the MIR on 0..257 (thorough 1000) symbolic segments with the piece-level derivative uninterpreted: one application per piece, in order, every breakpoint and the number of pieces kept, on every path (so value-dependent shortcuts such as a special case for an infinite end are seen).",
    "Piecewise structure for 1..3 (4) segments with a logging piece type.", SMT + "; Kani structure harnesses", BOTH, "DESIGN.md §4 C08")
chk("C09", "proof",
    "integral()/indefinite() of Log<Poly0..8> and evaluate of IntOfLog<T>/IntOfLogPoly4 executed symbolically; with ln v a free real per point, 'F - G is constant' (G the textbook antiderivative) and F(knot.x)=knot.y are polynomial identities z3 decides for all degrees; counterexamples replay natively against a 60-digit reference. Found and fixed the missing factor v in IntOfLog::evaluate.",
    "Exact-arithmetic identities; libm ln/exp accuracy outside the claim; for the quartic form exp_5_taylor is abstracted to R (tied to the code by C10).",
    SMT, E2, "DESIGN.md §4 C09, §5")
chk("C10", "proof",
    "z3 proves: the 16-term Estrin series = sum x^m/(m+5)! and the closed form = (e^x - P4)/x^5 (exact arithmetic), evaluate = k + v sum c_j x^j + u v x^5 T(x), branch thresholds bit-precisely, value at v=1 exactly k, series truncation <= 1e-13 relative and per-lane rounding <= 73u on the branch interval read from the MIR, conditioning <= 70 of the closed form outside it.",
    "Not reachable: libm accuracy (assumed <= 1 ulp), exp overflow for subnormal v, rounding lanes of the closed form (only its conditioning), a float-by-float sweep near v=1 (replaced by all-x symbolic statements). Geometric majorant and exp monotonicity are pen-and-paper assumptions.",
    SMT, E2, "DESIGN.md §4 C10")
chk("C11", "proof",
    "Kani proves Piecewise::integral/indefinite and both segment iterators equal, bit for bit, the property's running-knot recurrence (logging pieces, 1..3(4) segments); Piecewise<Poly1|Poly3|Log<Poly1>(...)>::integral is executed symbolically as a whole and z3 proves breakpoints unchanged, first piece through k0, continuity at every interior breakpoint and per-piece antiderivative identities (exact arithmetic). In addition Piecewise::integral, indefinite and both segment iterators are executed from the MIR on 0..257 (thorough 1000) symbolic segments with Segment::integral / indefinite and the piece evaluate uninterpreted: piece i is Segment::integral(seg_i, (end_(i-1), F_(i-1)(end_(i-1)))) resp. indefinite for the first piece, by-value and by-reference iterators give the same terms; counterexamples are replayed natively against the property's value statement (through k0, continuity, antiderivative), not against one construction.",
    "F(t)=k0.y+integral follows by the fundamental theorem of calculus (mathematical step); rounding at breakpoints is one subtraction per piece (bounded per piece by C07/C09).",
    BMC + "; " + SMT, BOTH, "DESIGN.md §4 C11")
chk("C12", "model_checking",
    "(E2) evaluate_v is executed symbolically from the MIR with a counting input iterator for (segments, arguments) (9,3),(5,4),(16,3),(6,5) quick / + (16,4),(32,3),(8,5) thorough; z3 proves each output is the piece direct evaluation selects for the running maximum, evaluated at x_k, exactly one output per input, k-th output after exactly k pulls; (E1) Kani/CBMC decides the same bit for bit on the compiled code up to (3,3) / (4,4),(5,3).",
    "Bound: sizes as listed; real embedding of non-NaN binary64 for the large sizes (comparisons only).",
    SMT + "; " + BMC, BOTH, "DESIGN.md §4 C12")
chk("C13", "model_checking",
    "(E2) both merge loops are executed symbolically from the MIR for operand lengths (4,4),(5,5),(6,3),(2,7),(1,8) quick / + (8,3),(3,8),(6,4),(4,6),(10,2) thorough (all feasible interleavings, up to ~1400 paths): 1..N+M-1 pieces, non-decreasing non-NaN breakpoints drawn from the operands, and for every x the selected piece is COMB(piece f selects, piece g selects, this operator); (E1) Kani/CBMC decides the same on the compiled code up to (3,2) / (4,4).",
    "Value clause follows by composing with C14 (coefficient-wise + and -). Bound: operand lengths as listed; real embedding for the large sizes.",
    SMT + "; " + BMC, BOTH, "DESIGN.md §4 C13")
chk("C14", "proof",
    "All 61 operator impls found in the MIR dump (129 instantiations over Poly0..8, Log<T>, IntOfLog<T>, IntOfLogPoly4, PolyN) are executed symbolically in bit-precise binary64; z3 proves every output number equals the correctly rounded scalar operation on the matching input number(s) for ALL finite inputs, `*=` == `*`, translate touches only the additive constant; pointwise value statements by exact-arithmetic linearity.",
    "Finite inputs (as the property states); results compared with fp.eq (signed zeros identified).", SMT, E2, "DESIGN.md §4 C14")
chk("C15", "model_checking",
    "Kani/CBMC decides for *, *=, unary -, translate (and derivative) on Segment<T> and Piecewise<T> (1..3(4) pieces, ends any f64 incl. NaN, any scalar): number, order and breakpoints bit-identical, each piece receives the operation exactly once with that scalar. In addition the same operators are executed from the MIR on 0..257 (thorough 1000) symbolic segments with the piece-level operation uninterpreted: every piece gets the operation exactly once, in order, with the given scalar, and every breakpoint is kept, on every path.",
    "Generic code monomorphised over a logging piece type (Kani) / Poly0 with uninterpreted piece operations (MIR); pointwise values follow from C14.", BMC + "; " + SMT, BOTH, "DESIGN.md §4 C15")
chk("C16", "model_checking",
    "Kani/CBMC decides: NaN-containing query histories keep later non-NaN answers bit-identical to direct evaluation (found and fixed the NaN-poisoning defect); evaluate / evaluator / evaluate_v accept any f64; all per-piece operators, merges, integral/indefinite and linear() return without panic/bounds/overflow failure on well-formed operands; each documented rejection is reachable. MIR path enumeration shows no panic path in linear()/constrained_spline() and the numeric kernels.",
    "Sizes as listed in evidence; constrained_spline on the compiled code is not finished by CBMC (float instrumentation) and is covered by the MIR path enumeration instead.",
    BMC + "; MIR path enumeration", BOTH, "DESIGN.md §4 C16, §5")
chk("C17", "proof",
    "All 30 AbsDiffEq/RelativeEq impls in the MIR dump are executed symbolically with the scalar relations as uninterpreted predicates; z3 proves result <=> conjunction over all corresponding numbers on every short-circuit path, and false for unequal lengths (Piecewise 0..3 vs 0..3 pieces, PolyN 0..3 vs 0..3); Kani anchors the assumed array/slice contract on the real approx code.",
    "Reflexivity/symmetry of approx's scalar relations are the dependency's; relative_eq on the real approx code is covered only through the uninterpreted model.",
    SMT + " with uninterpreted predicates; Kani anchor", BOTH, "DESIGN.md §4 C17")
chk("C18", "model_checking",
    "Kani/CBMC decides bit-identical round trips for ALL non-NaN f64 contents on the compiled code: serde through a harness-local binary Serializer/Deserializer (f64, integers, bool, Option, unit, seq/tuple/struct/newtype) driving the derived impls of every serializable type (Knot, Poly0..8, Log, IntOfLog, IntOfLogPoly4, Segment, Piecewise with 0..3 segments), borsh (feature on) through its own reader/writer for every fixed-size type and Segment<T>. In addition the borsh impls that the derive macros generate inside this crate are executed symbolically from their MIR (dumped with --features borsh) for every type and Piecewise<T> with 0,1,2,3,8,33,64 (thorough +5,16,17,128,257) segments against a token tape, with borsh's own impls for f64 / [f64; N] / Vec<X> replaced by their wire contract; z3 decides that the value read back has the same shape and the same bits in every number and that the tape is consumed exactly; counterexamples are replayed through real borsh bytes natively.",
    "Not applicable parts: text formats (float printing/parsing loops of a dependency). The compiled borsh framing of Vec<Segment<T>> does not finish in CBMC; Piecewise<T> under borsh is therefore decided from the MIR of the derived impls with the dependency's Vec impl by contract. serde beyond 3 segments is outside the claim.",
    BMC + "; " + SMT, BOTH, "DESIGN.md §4 C18")
chk("C19", "model_checking",
    "(E1) Kani/CBMC decides for every byte string of each enumerated (list shape <= 3 breakpoints, total length) with all payload bytes symbolic: Arbitrary returns Err or >=1 segment with normal, sorted ends, never panics, and the result evaluates identically through all three evaluators at any f64. (E2) the impl's own logic is executed from its MIR with the dependency's decoders by contract (Vec<f64>::arbitrary = any k binary64 values incl. NaN/inf/zero/subnormal, T::arbitrary = Ok(any)/Err) for k = 1..4 with piece failures and k = 5 without (thorough +(5, failures), 6): Err or >=1 segment, all ends normal, non-decreasing, no panic; counterexamples become byte strings run natively.",
    "Control bytes are fixed per Kani shape (their irrelevance beyond the low bit is proved separately); piece type Poly0 under Kani; <= 3 breakpoints under Kani, <= 5 (6) from the MIR.",
    BMC + "; " + SMT, BOTH, "DESIGN.md §4 C19")
