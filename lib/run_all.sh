#!/bin/sh
# Run every check of a tier sequentially; print exit codes and wall time (development helper).
cd "$(dirname "$0")/.."
TIER=${1:-quick}
for p in C01 C02 C03 C04 C05 C06 C07 C08 C09 C10 C11 C12 C13 C14 C15 C16 C17 C18 C19; do
  s=$(date +%s)
  ./check $p --tier $TIER > build/run_$p.out 2> build/run_$p.err
  rc=$?
  e=$(date +%s)
  echo "$p rc=$rc $((e-s))s $(grep -c '^VIOLATION' build/run_$p.out) violation-lines $(tail -1 build/run_$p.err | cut -c1-120)"
done
