#!/bin/sh
# Usage: lib/try_seed.sh <seed-dir-or-worktree with patch.diff and tests/demo_seed.rs> <check ids...>
# 1. confirms in the scratch worktree: existing tests pass with the patch, demo fails with it, demo passes without
# 2. applies the patch to /repo, runs the given checks (quick), undoes the patch
export VERIF_EVIDENCE_DIR=/verif/build/evidence_scratch; mkdir -p $VERIF_EVIDENCE_DIR
WT=$1; shift
cd "$WT" || exit 9
export CARGO_TARGET_DIR=$WT/target CARGO_NET_OFFLINE=true
FEAT=""
grep -q "borsh" tests/demo_seed.rs 2>/dev/null && FEAT="--features borsh"
git checkout -- src 2>/dev/null
git apply patch.diff || { echo "patch does not apply in worktree"; exit 9; }
T=$(cargo test --offline --lib 2>&1 | grep "test result" | head -1)
echo "existing tests with patch: $T"
D1=$(cargo test --offline $FEAT --test demo_seed 2>&1 | grep "test result" | head -1)
echo "demo with patch:    $D1"
git checkout -- src
D0=$(cargo test --offline $FEAT --test demo_seed 2>&1 | grep "test result" | head -1)
echo "demo without patch: $D0"
git apply patch.diff
cd /verif
git -C /repo apply "$WT/patch.diff" || { echo "patch does not apply to /repo"; exit 9; }
for c in "$@"; do
  ./check $c > build/seed_$c.out 2> build/seed_$c.err; rc=$?
  echo "check $c rc=$rc: $(grep -c '^VIOLATION' build/seed_$c.out) violation line(s)"
  grep '^VIOLATION' build/seed_$c.out | head -3
  grep 'what:' build/seed_$c.err | cut -c1-400 | head -3
  tail -1 build/seed_$c.err | cut -c1-200
done
git -C /repo checkout -- .
git -C /repo status --short | head -3
